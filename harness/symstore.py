"""Symbolic (arbitrary) initial storage for the E1 engine.

With svm.enableSymbolicStorage / vm.setArbitraryStorage an account's never-written slots hold
unconstrained values.  An E1 input has to fix them: for accounts in Prog.symstore the initial content of
slot s is F(s) = s xor MASK, on both sides -

  * Evm.tla reads F(s) for a slot that is absent from the finite storage map (env.symstore / env.symmask);
  * halmos' paths mention the initial contents as `storage_<addr>_..._00` terms, indexed by the *decoded*
    location (the keys / offsets of the Solidity layout, or the nested pseudo-hash of the generic layout);
    `storage0` below maps such an index back to the slot number it denotes and returns F(slot).

Going back from the index to the slot needs the type of the state variable at the base slot (a mapping
key and an array index look alike), so the programs of this mode use the fixed typed LAYOUT below, with
32-byte keys.  Types are lists of constructors from the inside out: ["map", "arr"] is
mapping(uint => uint[]) :  slot(m[k][i]) = keccak(keccak(k . s)) + i.
"""

from __future__ import annotations

from eth_hash.auto import keccak

M256 = 1 << 256
MASK = int.from_bytes(keccak(b"verif: initial contents of symbolic storage"), "big")

LAYOUT: dict[int, list[str]] = {
    0: [],
    1: ["map"],
    2: ["arr"],
    3: ["map", "map"],
    5: ["map", "arr"],
    9: ["arr", "map"],
    11: ["arr", "arr"],
}


def F(slot: int) -> int:
    return slot ^ MASK


def _h(data: bytes) -> int:
    return int.from_bytes(keccak(data), "big")


def _w(n: int) -> bytes:
    return (n % M256).to_bytes(32, "big")


class Undecodable(Exception):
    pass


def slot_solidity(base: int, words: list[int], layout=LAYOUT) -> int:
    """Slot denoted by halmos' SolidityStorage key tuple (base; words...)."""
    types = layout.get(base)
    if types is None:
        raise Undecodable(f"no type for base slot {base}")
    cur, i = base, 0
    for t in types:
        if t == "map":
            if i + 2 > len(words):
                raise Undecodable(f"key tuple too short for {types}")
            cur = (_h(_w(words[i]) + _w(cur)) + words[i + 1]) % M256
            i += 2
        else:
            if i + 1 > len(words):
                raise Undecodable(f"key tuple too short for {types}")
            cur = (_h(_w(cur)) + words[i]) % M256
            i += 1
    if i != len(words):
        raise Undecodable(f"key tuple {len(words)} words, type {types}")
    return cur


def _size_generic(types: list[str]) -> int:
    n = 256
    for t in types:
        n += 257 + (256 if t == "map" else 0)
    return n


def _parse_generic(idx: int, types: list[str]) -> tuple[int, int]:
    """(base slot, slot) for a GenericStorage location index read with the given type."""
    if not types:
        return idx, idx
    t = types[-1]
    off = idx & ((1 << 257) - 1)
    x = idx >> 257
    if t == "arr":
        base, inner = _parse_generic(x, types[:-1])
        return base, (_h(_w(inner)) + off) % M256
    inner_size = _size_generic(types[:-1])
    key = x >> inner_size
    base, inner = _parse_generic(x & ((1 << inner_size) - 1), types[:-1])
    if key >= M256:
        raise Undecodable("key wider than 256 bits")
    return base, (_h(_w(key) + _w(inner)) + off) % M256


def slot_generic(idx: int, bits: int, layout=LAYOUT) -> int:
    hits = []
    for base, types in layout.items():
        if _size_generic(types) != bits:
            continue
        try:
            b, s = _parse_generic(idx, types)
        except Undecodable:
            continue
        if b == base:
            hits.append(s)
    if len(set(hits)) != 1:
        raise Undecodable(f"generic index of {bits} bits: {len(hits)} readings")
    return hits[0]


def make_storage0(symstore: set[int], layout=LAYOUT):
    """The zeval hook: value of halmos' initial storage term `name` at index `idx`."""
    from .zeval import Unbound

    def storage0(name: str, idx, bits: int) -> int:
        parts = name.split("_")
        addr = int(parts[1], 16)
        if addr not in symstore:
            return 0
        try:
            if len(parts) == 6:  # storage_<addr>_<slot>_<num_keys>_<size_keys>_00 (solidity layout)
                base, nk, sk = int(parts[2]), int(parts[3]), int(parts[4])
                if idx is None:
                    words = []
                else:
                    if sk != 256 * nk:
                        raise Undecodable("short keys are not typed")
                    words = [(idx >> (256 * (nk - 1 - j))) & (M256 - 1) for j in range(nk)]
                return F(slot_solidity(base, words, layout))
            if len(parts) == 4:  # storage_<addr>_<size>_00 (generic layout)
                return F(slot_generic(idx, bits, layout))
        except Undecodable as e:
            raise Unbound(f"initial storage {name}[{idx}]: {e}") from e
        raise Unbound(f"unrecognised initial storage term {name}")

    return storage0
