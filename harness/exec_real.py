"""Code -> property direction of C17: the UNMODIFIED halmos.processes classes with real subprocesses.

Only observation wrappers are installed from the harness process (a recording `Popen` in the module
namespace, a per-instance `set_result` counter); threads, locks, psutil and the processes are real.
Scenarios are randomised (harness.common.seed()); every job is bounded (long jobs always carry a
timeout), so every wait below has a margin of tens of seconds.  Only observations that do not depend
on how a race happens to resolve raise violations:

  * every accepted job delivers exactly once, result() returns, rejected jobs never deliver;
  * a job whose time limit expired is seen as subprocess.TimeoutExpired, never as a result tuple;
  * a Popen failure is seen as the OSError;
  * jobs whose process exists before shutdown(wait=False) is *called* (sequenced scenario) have no live
    process (tree) once it returned (polled for up to GRACE seconds), and a submit made after it
    returned raises ShutdownError;
  * when everything has finished, no process started by the scenario (or sampled descendant) is alive.

What depends on the race (a process that starts after shutdown returned, shutdown(wait=True) raising)
is only counted; the deterministic reproduction is the job of the schedule replay (harness/sched.py).
"""

from __future__ import annotations

import random
import subprocess
import sys
import threading
import time
from concurrent.futures import InvalidStateError
from dataclasses import dataclass, field

import psutil

from .common import MachineryError, repo_python_path

repo_python_path()

import halmos.processes as P  # noqa: E402

GRACE = 15.0  # seconds to poll for "no process of ours is alive"
RESULT_WAIT = 90.0  # bound on Future.result(); every job ends within ~2 s by construction
LONG = "120"

JOB_KINDS = {
    # kind: (cmd, timeout, expected outcome when nothing interferes)
    "quick": (["sh", "-c", "echo ok"], None, "tuple"),
    "short": (["sleep", "0.15"], 20.0, "tuple"),
    "long_to": (["sleep", LONG], 0.35, "timeout"),
    "tree_to": (["sh", "-c", f"sleep {LONG} & sleep {LONG} & wait"], 0.45, "timeout"),
    "stubborn_to": (["sh", "-c", f"trap '' TERM; sleep {LONG} & wait"], 0.35, "timeout"),
    "badcmd": (["/nonexistent/solver-binary"], 5.0, "oserror"),
}


# kinds used only by the two-shutdown scenarios (no time limit: only a signal ends them)
# (single processes only: a grandchild that the best-effort tree kill misses keeps the pipe open and would
#  block communicate() of a job without time limit for reasons unrelated to the property)
TWO_KINDS = {
    "forever": (["sleep", LONG], None, "tuple"),
}
ALL_KINDS = {**JOB_KINDS, **TWO_KINDS}
TWO_STYLES = ("two:wait-nowait", "two:nowait-nowait", "two:nowait-wait")


EXCUSABLE = {"process-survives-shutdown-nowait", "process-survives-completion", "result-never-returns",
             "shutdown-wait-blocked-after-nowait", "shutdown-never-returns"}


@dataclass
class RunResult:
    scenario: dict
    st: object = None
    events: list = field(default_factory=list)
    violations: list = field(default_factory=list)  # (key, what)
    counts: dict = field(default_factory=dict)
    seen: dict = field(default_factory=dict)
    nontrivial: set = field(default_factory=set)


class _Log:
    def __init__(self):
        self.lock = threading.Lock()
        self.seq = 0
        self.events = []

    def add(self, *ev):
        with self.lock:
            self.seq += 1
            self.events.append((self.seq, round(time.time(), 4)) + ev)


# -- recording Popen (module namespace of halmos.processes; calls the real Popen) -----------------------------

_REAL_POPEN = subprocess.Popen
_CMD_OWNER: dict[int, tuple] = {}  # id(cmd list) -> (run state, job)
_CMD_LOCK = threading.Lock()


def _recording_popen(cmd, *a, **kw):
    with _CMD_LOCK:
        owner = _CMD_OWNER.get(id(cmd))
    try:
        p = _REAL_POPEN(cmd, *a, **kw)
    except BaseException as e:
        if owner:
            owner[0].log.add("popen_failed", owner[1], type(e).__name__)
        raise
    if owner:
        st, j = owner
        try:
            st.handles[j] = psutil.Process(p.pid)
        except psutil.NoSuchProcess:
            st.handles[j] = None
        st.log.add("popen", j, p.pid, st.shutdown_returned.is_set())
    return p


class recording:
    """Context manager: install/remove the recording Popen."""

    def __enter__(self):
        if P.Popen is not _REAL_POPEN:
            raise MachineryError("halmos.processes.Popen is already substituted")
        P.Popen = _recording_popen
        return self

    def __exit__(self, *a):
        P.Popen = _REAL_POPEN
        return False


def alive(h: psutil.Process | None) -> bool:
    if h is None:
        return False
    try:
        return h.is_running() and h.status() not in (psutil.STATUS_ZOMBIE, psutil.STATUS_DEAD)
    except (psutil.NoSuchProcess, psutil.ZombieProcess):
        return False
    except psutil.AccessDenied:  # pragma: no cover
        return True


def wait_dead(handles, grace=GRACE) -> tuple[list, float]:
    t0 = time.time()
    left = [h for h in handles if alive(h)]
    while left and time.time() - t0 < grace:
        time.sleep(0.02)
        left = [h for h in left if alive(h)]
    return left, time.time() - t0


def split_survivors(st, left, res) -> list:
    """Survivors that are the Popen'ed processes themselves (reliable: cancel() signals that pid directly).  A
    surviving DESCENDANT is only counted and killed: the tree kill is best effort (psutil's /proc scan can miss a
    child while other processes are being created/killed), which no schedule of the model controls."""
    parents = {h.pid for h in st.handles.values() if h is not None}
    desc = [h for h in left if h.pid not in parents]
    if desc:
        res.counts["descendant_survivors"] = res.counts.get("descendant_survivors", 0) + len(desc)
        for h in desc:
            try:
                h.kill()
            except psutil.Error:
                pass
    return [h for h in left if h.pid in parents]


class _State:
    def __init__(self, scenario):
        self.scenario = scenario
        self.log = _Log()
        self.handles: dict = {}
        self.descendants: list = []
        self.shutdown_returned = threading.Event()
        self.cancel_errors: list = []  # exceptions that escaped from PopenFuture.cancel (psutil internals ...)


def make_scenario(rnd: random.Random, idx: int) -> dict:
    style = ["sequenced-nowait", "concurrent", "sequenced-wait", "concurrent"][idx % 4]
    n = rnd.randint(1, 3)
    kinds = [rnd.choice(list(JOB_KINDS)) for _ in range(n)]
    if idx % 4 == 0 and not any(k.endswith("_to") for k in kinds):
        kinds[0] = rnd.choice(["long_to", "tree_to", "stubborn_to"])
    mode = {"sequenced-nowait": "nowait", "sequenced-wait": "wait"}.get(style) or rnd.choice(
        ["none", "nowait", "nowait", "wait"]
    )
    return {
        "idx": idx,
        "style": style,
        "kinds": kinds,
        "mode": mode,
        "submit_delay": [round(rnd.uniform(0, 0.06), 3) for _ in kinds],
        "shutdown_delay": round(rnd.choice([0.0, 0.0, rnd.uniform(0, 0.08), rnd.uniform(0.1, 0.6)]), 3),
        "double_delivery": False,
    }


def make_two_scenario(rnd: random.Random, idx: int, k: int) -> dict:
    """Two shutdown requests on one executor (what halmos does: early-exit callbacks + shutdown_all at exit)."""
    style = TWO_STYLES[k % len(TWO_STYLES)]
    kinds = ["forever"] + [rnd.choice(["forever", "long_to", "quick", "stubborn_to"])
                           for _ in range(rnd.randint(0, 2))]
    first, second = style[4:].split("-")
    return {"idx": idx, "style": style, "kinds": kinds, "mode": first, "modes": {"s1": first, "s2": second},
            "submit_delay": [0.0 for _ in kinds], "shutdown_delay": 0.0, "double_delivery": False}


def run_scenario(sc: dict) -> RunResult:
    """Run one scenario on a fresh PopenExecutor; the recording Popen must be installed by the caller."""
    res = RunResult(scenario=sc)
    st = _State(sc)
    ex = P.PopenExecutor()
    jobs = [f"j{i + 1}" for i in range(len(sc["kinds"]))]
    futs, calls, outcome, seen, invalid, finished = {}, {}, {}, {}, [], {}
    for j, kind in zip(jobs, sc["kinds"]):
        cmd, timeout, _ = ALL_KINDS[kind]
        f = P.PopenFuture(list(cmd), timeout=timeout)
        with _CMD_LOCK:
            _CMD_OWNER[id(f.cmd)] = (st, j)
        futs[j] = f
        calls[j] = 0
        finished[j] = threading.Event()

        def counted(result, f=f, j=j):
            # counts delivery ATTEMPTS, before the call, so that a waiter released by the real set_result
            # can never observe a stale count
            calls[j] += 1
            st.log.add("set_result", j)
            try:
                type(f).set_result(f, result)
                if sc.get("double_delivery"):  # negative control: a wrapper that delivers twice
                    calls[j] += 1
                    st.log.add("set_result", j)
                    try:
                        type(f).set_result(f, result)
                    except InvalidStateError:
                        pass
            except InvalidStateError:
                invalid.append(j)
                raise
            finally:
                finished[j].set()

        f.set_result = counted

        def recorded_cancel(f=f, j=j):
            # observation only: cancel() catches nothing but psutil.NoSuchProcess; whatever else escapes from it
            # (seen: IndexError from psutil's /proc scan while other processes are being killed) aborts the kill,
            # and shutdown() never looks at the outcome of its cancel tasks
            try:
                return type(f).cancel(f)
            except BaseException as e:
                st.cancel_errors.append((j, repr(e)))
                st.log.add("cancel_error", j, type(e).__name__)
                raise

        f.cancel = recorded_cancel

    def submitter(j, delay):
        time.sleep(delay)
        st.log.add("submit_call", j)
        try:
            ex.submit(futs[j])
        except P.ShutdownError:
            outcome[j] = "rejected"
            st.log.add("rejected", j)
            return
        st.log.add("accepted", j, st.shutdown_returned.is_set())
        outcome[j] = "accepted"
        try:
            r = futs[j].result(timeout=RESULT_WAIT)
            seen[j] = ("tuple", r)
        except subprocess.TimeoutExpired:
            seen[j] = ("timeout", None)
        except TimeoutError:  # (not an OSError subclass of interest: concurrent.futures.TimeoutError)
            seen[j] = ("never", None)
        except Exception as e:  # noqa: BLE001 - whatever run() stored via `except Exception` (OSError, ValueError ...)
            seen[j] = ("oserror", type(e).__name__)
        st.log.add("result", j, seen[j][0])

    shut = {}
    res.st = st

    def shutdowner(delay, sid="s1", mode=None):
        mode = mode or sc["mode"]
        time.sleep(delay)
        st.log.add("shutdown_call", sid, mode)
        try:
            ex.shutdown(wait=(mode == "wait"))
            out = "returned"
        except Exception as e:  # noqa: BLE001 - a job's stored exception escaping from _join()
            out = "raised:" + type(e).__name__
        shut["out:" + sid] = out
        if sid == "s1":
            shut["out"] = out
        shut["t"] = time.time()
        st.shutdown_returned.set()
        st.log.add("shutdown_return", sid, out)

    def sample_descendants():
        for h in list(st.handles.values()):
            if h is None:
                continue
            try:
                st.descendants.extend(h.children(recursive=True))
            except (psutil.NoSuchProcess, psutil.ZombieProcess):
                pass

    subs = [threading.Thread(target=submitter, args=(j, d)) for j, d in zip(jobs, sc["submit_delay"])]
    t_start = time.time()
    for t in subs:
        t.start()
    sequenced = sc["style"].startswith("sequenced")
    two = sc["style"].startswith("two:")
    pre_handles = []
    if sequenced or two:
        # wait until every job has been accepted and has its process (or has failed to start)
        t0 = time.time()
        while time.time() - t0 < 30:
            if all(outcome.get(j) == "accepted" and (futs[j].process is not None or futs[j].done()) for j in jobs):
                break
            time.sleep(0.005)
        else:
            raise MachineryError(f"scenario {sc['idx']}: jobs did not start within 30 s")
        time.sleep(0.12)  # let `sh -c` fork its children
        sample_descendants()
        pre_handles = [h for h in st.handles.values() if h is not None] + list(st.descendants)
        res.counts["pre_shutdown_alive"] = sum(1 for h in pre_handles if alive(h))
        if two:
            _two_shutdowns(sc, ex, shutdowner, pre_handles, res)
        else:
            shutdowner(0.0)
        if sequenced and sc["mode"] == "nowait":
            left, took = wait_dead(pre_handles)
            res.counts["dead_after_s"] = round(took, 3)
            left = split_survivors(st, left, res)
            if left:
                res.violations.append((
                    "process-survives-shutdown-nowait",
                    f"{len(left)} process(es) started before shutdown(wait=False) was called are alive "
                    f"{GRACE}s after it returned: {[(h.pid) for h in left]} kinds={sc['kinds']}",
                ))
        # a submit that starts after shutdown returned must be rejected
        late = P.PopenFuture(["sh", "-c", "echo late"], timeout=5.0)
        try:
            ex.submit(late)
            late.result(timeout=RESULT_WAIT)
            res.violations.append(("accept-after-shutdown-sequential",
                                   f"submit() made after shutdown({sc['mode']}) had returned was accepted"))
        except P.ShutdownError:
            res.counts["late_submit_rejected"] = 1
        except (subprocess.TimeoutExpired, OSError):
            res.violations.append(("accept-after-shutdown-sequential", "late submit accepted (and failed)"))
    else:
        sh_thread = None
        if sc["mode"] != "none":
            sh_thread = threading.Thread(target=shutdowner, args=(sc["shutdown_delay"],))
            sh_thread.start()
        time.sleep(0.2)
        sample_descendants()
        if sh_thread:
            sh_thread.join(RESULT_WAIT + 30)
            if sh_thread.is_alive():
                res.violations.append(("shutdown-never-returns", f"shutdown({sc['mode']}) did not return: {sc}"))
    for t in subs:
        t.join(RESULT_WAIT + 30)
        if t.is_alive():
            raise MachineryError(f"scenario {sc['idx']}: submitter thread stuck")
    # let the worker threads finish (set_result is the last statement of run())
    for j in jobs:
        if outcome.get(j) == "accepted" and seen.get(j, ("never",))[0] != "never":
            if not finished[j].wait(60):
                raise MachineryError(f"scenario {sc['idx']}: set_result wrapper of {j} did not finish")

    # ---- judgement
    for j, kind in zip(jobs, sc["kinds"]):
        f = futs[j]
        _, timeout, expect = ALL_KINDS[kind]
        if outcome.get(j) == "rejected":
            if calls[j] != 0 or f.process is not None:
                res.violations.append(("rejected-job-ran", f"{j} ({kind}) was rejected but ran: calls={calls[j]}"))
            if sc["mode"] == "none":
                res.violations.append(("rejected-without-shutdown", f"{j} rejected although shutdown was never called"))
            continue
        s = seen.get(j, ("never", None))
        res.seen[j] = s[0]
        if s[0] == "never":
            res.violations.append(("result-never-returns", f"{j} ({kind}): result() did not return in {RESULT_WAIT}s"))
            continue
        if s[0] == "oserror" and s[1] not in ("OSError", "FileNotFoundError"):
            res.counts["result_other_exception:" + str(s[1])] = 1
        if calls[j] != 1 or j in invalid:
            res.violations.append(("delivered-not-exactly-once",
                                   f"{j} ({kind}): set_result completed {calls[j]} time(s), InvalidState={j in invalid}"))
        timed_out = isinstance(f._exception, subprocess.TimeoutExpired)
        if timed_out and s[0] != "timeout":
            res.violations.append(("timeout-reported-as-result",
                                   f"{j} ({kind}): the time limit expired but result() gave {s[0]}: {s[1]!r}"))
        if expect == "timeout" and s[0] == "tuple" and sc["mode"] == "none":
            res.violations.append(("timeout-reported-as-result",
                                   f"{j} ({kind}, limit {timeout}s, no shutdown): result() gave a tuple {s[1]!r}"))
        if expect == "oserror" and s[0] != "oserror":
            res.violations.append(("popen-failure-not-reported", f"{j} ({kind}): result() gave {s[0]}"))
        if kind == "quick" and sc["mode"] == "none" and s != ("tuple", ("ok\n", "", 0)):
            res.violations.append(("wrong-result", f"{j} (quick): result() gave {s!r}"))
    # timing-dependent observations: only counted
    for ev in st.log.events:
        if ev[2] == "popen" and ev[5]:
            res.counts["popen_after_shutdown_returned"] = res.counts.get("popen_after_shutdown_returned", 0) + 1
        if ev[2] == "accepted" and ev[4]:
            res.counts["accepted_after_shutdown_returned"] = res.counts.get("accepted_after_shutdown_returned", 0) + 1
    if shut.get("out", "").startswith("raised"):
        res.counts["shutdown_wait_raised"] = 1
    if sc["mode"] == "wait" and shut.get("out") == "returned" and sequenced:
        notdone = [j for j in jobs if not futs[j].done()]
        if notdone:
            res.violations.append(("shutdown-wait-returned-early",
                                   f"shutdown(wait=True) returned normally but {notdone} are not done"))
    # when all is over nothing of ours may be alive
    allh = [h for h in st.handles.values() if h is not None] + list(st.descendants)
    left, took = wait_dead(allh)
    res.counts["all_dead_after_s"] = round(took, 3)
    left = split_survivors(st, left, res)
    if left:
        res.violations.append(("process-survives-completion",
                               f"{len(left)} process(es) alive {GRACE}s after every job delivered: "
                               f"{[h.pid for h in left]} kinds={sc['kinds']} mode={sc['mode']}"))
        for h in left:  # do not leak them
            try:
                h.kill()
            except psutil.Error:
                pass
    res.nontrivial.add((sc["style"], sc["mode"], tuple(sc["kinds"])))
    with _CMD_LOCK:
        for f in futs.values():
            _CMD_OWNER.pop(id(f.cmd), None)
    res.events = st.log.events
    if st.cancel_errors:
        # the kill was aborted by an exception inside cancel(): environment dependent (load, psutil), so the
        # consequences are recorded, not raised as violations of this run
        res.counts["cancel_aborted_by_unexpected_exception"] = len(st.cancel_errors)
        res.counts["cancel_errors"] = sorted({e for _, e in st.cancel_errors})[:3]
        kept = [(k, w) for k, w in res.violations if k not in EXCUSABLE]
        res.counts["consequences_not_raised"] = sorted({k for k, _ in res.violations if k in EXCUSABLE})
        res.violations = kept
    res.counts["wall_s"] = round(time.time() - t_start, 2)
    return res


def _two_shutdowns(sc, ex, shutdowner, pre_handles, res: RunResult):
    """The second shutdown request arrives while / after the first one.  Whatever the first call was, once a
    shutdown(wait=False) has returned the processes that existed before it was called must be gone, and a
    shutdown(wait=True) must return (every process is either bounded or killed by the wait=False call)."""
    order = sc["style"][4:]
    m = sc["modes"]

    def survivors(what):
        left, took = wait_dead(pre_handles)
        res.counts["dead_after_s"] = round(took, 3)
        left = split_survivors(res.st, left, res)
        if left:
            res.violations.append((
                "process-survives-shutdown-nowait",
                f"{len(left)} process(es) that existed before shutdown(wait=False) was called are alive {GRACE}s "
                f"after it returned ({what}): {[h.pid for h in left]} kinds={sc['kinds']}"))
        return left

    def release(handles):  # do not leave a blocked joiner / live children behind a violation
        for h in handles:
            try:
                h.kill()
            except psutil.Error:
                pass

    if order == "wait-nowait":
        a = threading.Thread(target=shutdowner, args=(0.0, "s1", "wait"), daemon=True)
        a.start()
        t0 = time.time()
        while not ex.is_shutdown() and time.time() - t0 < 30:
            time.sleep(0.005)
        time.sleep(0.15)  # thread A is now (almost certainly) blocked in _join(); the property does not depend on it
        res.counts["joiner_blocked"] = int(a.is_alive())
        shutdowner(0.0, "s2", "nowait")
        left = survivors("a shutdown(wait=True) of another thread was joining")
        a.join(10)
        if a.is_alive():
            res.violations.append((
                "shutdown-wait-blocked-after-nowait",
                f"shutdown(wait=True) is still blocked {GRACE + 10:.0f}s after a shutdown(wait=False) of another "
                f"thread returned; kinds={sc['kinds']}"))
        if left or a.is_alive():
            release(pre_handles)
            a.join(30)
    elif order == "nowait-nowait":
        ts = [threading.Thread(target=shutdowner, args=(0.0, sid, "nowait"), daemon=True) for sid in ("s1", "s2")]
        for t in ts:
            t.start()
        for t in ts:
            t.join(60)
        if any(t.is_alive() for t in ts):
            res.violations.append(("shutdown-never-returns", f"concurrent shutdown(wait=False) calls: {sc}"))
        if survivors("two concurrent shutdown(wait=False) calls"):
            release(pre_handles)
    else:  # nowait-wait
        shutdowner(0.0, "s1", "nowait")
        left = survivors("first of two shutdown calls")
        b = threading.Thread(target=shutdowner, args=(0.0, "s2", "wait"), daemon=True)
        b.start()
        b.join(20)
        if b.is_alive() and not left:
            res.violations.append(("shutdown-wait-blocked-after-nowait",
                                   f"shutdown(wait=True) after a completed shutdown(wait=False) does not return: {sc}"))
        if left or b.is_alive():
            release(pre_handles)
            b.join(30)
    assert set(m) == {"s1", "s2"}


def run_batch(n: int, seed: int) -> list[RunResult]:
    """Scenarios run one after the other: cancel() closes pipes that another thread may still poll, so
    concurrent scenarios in one process could disturb each other through recycled file descriptors."""
    rnd = random.Random(7919 * seed + 17)
    scs = [make_scenario(rnd, i) for i in range(n)]
    scs += [make_two_scenario(rnd, n + k, k) for k in range(max(3, n // 8))]
    with recording():
        return [run_scenario(sc) for sc in scs]


# -- event logs for spec/Trace_Executor.tla -------------------------------------------------------------------


def to_trace(r: RunResult) -> dict:
    evs = []
    for ev in r.events:
        kind = ev[2]
        if kind in ("submit_call", "rejected", "accepted", "popen", "popen_failed", "set_result"):
            evs.append({"e": kind, "j": ev[3], "x": ""})
        elif kind == "result":
            evs.append({"e": kind, "j": ev[3], "x": ev[4]})
        elif kind == "shutdown_call":
            evs.append({"e": kind, "j": ev[3], "x": ""})
        elif kind == "shutdown_return":
            evs.append({"e": kind, "j": ev[3], "x": ev[4].split(":")[0]})
    modes = r.scenario.get("modes") or {"s1": r.scenario["mode"], "s2": "none"}
    return {"mode": modes, "events": evs}


def corrupt_traces(traces: list[dict]) -> list[tuple[str, dict]]:
    """Negative controls for the trace specification (each must be rejected)."""
    import copy

    # a rejected log makes TLC explore everything the model can still do: derive the controls from the
    # logs with the fewest jobs
    traces = sorted(traces, key=lambda t: (sum(1 for e in t["events"] if e["e"] == "submit_call"), len(t["events"])))
    out = []
    for t in traces:  # result observed before the result was set
        ev = t["events"]
        ks = [k for k, e in enumerate(ev) if e["e"] == "set_result"]
        if ks:
            c = copy.deepcopy(t)
            k = ks[0]
            r = next(i for i, e in enumerate(ev) if e["e"] == "result" and e["j"] == ev[k]["j"])
            c["events"].insert(k, c["events"].pop(r))
            out.append(("result-before-set_result", c))
            break
    for t in traces:  # dropped event: shutdown returns without having been called
        if any(e["e"] == "shutdown_return" for e in t["events"]):
            c = copy.deepcopy(t)
            c["events"] = [e for e in c["events"] if e["e"] != "shutdown_call"]
            out.append(("dropped-shutdown_call", c))
            break
    for t in traces:  # corrupted field: a second delivery
        ks = [k for k, e in enumerate(t["events"]) if e["e"] == "set_result"]
        if ks:
            c = copy.deepcopy(t)
            c["events"].insert(ks[0] + 1, dict(c["events"][ks[0]]))
            out.append(("second-set_result", c))
            break
    for t in traces:  # corrupted field: a rejected job reported as having delivered a result
        ks = [k for k, e in enumerate(t["events"]) if e["e"] == "rejected"]
        if ks:
            c = copy.deepcopy(t)
            c["events"][ks[0]] = {"e": "result", "j": c["events"][ks[0]]["j"], "x": "tuple"}
            out.append(("rejected-job-has-result", c))
            break
    return out


def our_children_alive() -> list:
    try:
        return [c for c in psutil.Process().children(recursive=True) if alive(c) and "java" not in _name(c)]
    except psutil.Error:
        return []


def _name(p):
    try:
        return p.name()
    except psutil.Error:
        return ""


if __name__ == "__main__":  # manual run
    out = run_batch(int(sys.argv[1]) if len(sys.argv) > 1 else 8, 0)
    for r in out:
        print(r.scenario["idx"], r.scenario["style"], r.scenario["kinds"], r.scenario["mode"], r.seen, r.counts,
              r.violations)
