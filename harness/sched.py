"""Engine E3: deterministic scheduler that drives the REAL halmos.processes code along a TLC schedule.

The module `halmos.processes` is not edited.  For the duration of one replay the names it looks up at
run time -- `threading`, `Popen`, `psutil`, `concurrent` (for the cancel ThreadPoolExecutor and
`concurrent.futures.wait`) -- are substituted *in that module's namespace only* by controlled equivalents,
and `PopenFuture.set_result` / `PopenFuture.result` are wrapped.  Every operation of these equivalents is
a *synchronisation point*: the calling logical thread parks there until the driver names it, so exactly
one logical thread runs from one synchronisation point to the next, in the order TLC chose
(spec/Executor.tla has one action per synchronisation point).

Logical threads are real `threading.Thread`s gated by per-thread semaphores (no greenlets needed).
After each step the state of the real objects is projected (`Replay.observe`) and compared with the
state TLC computed (`Proj` of spec/ExecSched.tla); before each step the set of runnable logical
threads is compared with the model's set of enabled threads.
"""

from __future__ import annotations

import subprocess
import threading as _rt
import types
from contextlib import contextmanager
from dataclasses import dataclass, field

import psutil as _real_psutil

from .common import MachineryError, repo_python_path

repo_python_path()

import concurrent.futures as _cf  # noqa: E402

import halmos.processes as P  # noqa: E402

STEP_TIMEOUT = 30.0


class ReplayAbort(BaseException):
    """Raised inside parked logical threads when a replay is abandoned."""


class Divergence(Exception):
    """The real code and the specification disagree (cannot follow the schedule / state mismatch)."""

    def __init__(self, kind: str, detail: str, step: int = -1, label=None):
        super().__init__(f"{kind}: {detail}")
        self.kind = kind
        self.detail = detail
        self.step = step
        self.label = label


# ---------------------------------------------------------------------------------------------
# scheduler


class Gate:
    """Binary semaphore on a raw lock (much cheaper hand-off than threading.Semaphore)."""

    __slots__ = ("l",)

    def __init__(self):
        self.l = _rt.Lock()
        self.l.acquire()

    def release(self):
        try:
            self.l.release()
        except RuntimeError:
            pass

    def acquire(self, timeout=-1):
        return self.l.acquire(True, timeout)


@dataclass
class Pending:
    op: str
    guards: dict  # action name -> callable() -> bool
    info: object = None

    def enabled(self) -> bool:
        return any(g() for g in self.guards.values())


@dataclass
class LThread:
    key: tuple
    fn: object
    go: object = field(default_factory=Gate)
    parked: object = field(default_factory=Gate)
    pending: Pending | None = None
    finished: bool = False
    error: BaseException | None = None
    chosen: str | None = None
    ops: list = field(default_factory=list)
    real: object = None


class Scheduler:
    def __init__(self):
        self.threads: dict[tuple, LThread] = {}
        self.tls = _rt.local()
        self.aborting = False

    def current(self) -> LThread | None:
        return getattr(self.tls, "lt", None)

    def spawn(self, key: tuple, fn) -> LThread:
        """Create a logical thread and let it run up to its first synchronisation point (the creator
        waits meanwhile, so still only one logical thread runs)."""
        if key in self.threads:
            raise Divergence("spawn", f"logical thread {key} created twice")
        lt = LThread(key, fn)
        self.threads[key] = lt
        lt.real = _rt.Thread(target=self._run, args=(lt,), daemon=True, name=f"lt-{key[0]}-{key[1]}")
        lt.real.start()
        if not lt.parked.acquire(timeout=STEP_TIMEOUT):
            raise MachineryError(f"logical thread {key} did not reach its first synchronisation point")
        return lt

    def _run(self, lt: LThread):
        self.tls.lt = lt
        try:
            lt.fn()
        except ReplayAbort:
            pass
        except BaseException as e:  # noqa: BLE001 - recorded, judged by the driver
            lt.error = e
        finally:
            lt.finished = True
            lt.pending = None
            lt.parked.release()

    def yield_point(self, op: str, guards: dict, info=None) -> str:
        lt = self.current()
        if lt is None:
            raise MachineryError(f"synchronisation point {op} reached outside a logical thread")
        if self.aborting:
            raise ReplayAbort()
        lt.pending = Pending(op, guards, info)
        lt.ops.append(op)
        lt.parked.release()
        ok = lt.go.acquire(timeout=STEP_TIMEOUT * 4)
        if self.aborting or not ok:
            raise ReplayAbort()
        lt.pending = None
        return lt.chosen

    def step(self, key: tuple, label: str):
        lt = self.threads.get(key)
        if lt is None:
            raise Divergence("no-thread", f"logical thread {key} does not exist (schedule wants {label})")
        if lt.finished or lt.pending is None:
            raise Divergence("finished", f"logical thread {key} has already finished (schedule wants {label})")
        p = lt.pending
        if label not in p.guards:
            raise Divergence(
                "wrong-op", f"{key} is parked at `{p.op}` (allows {sorted(p.guards)}), schedule wants {label}"
            )
        if not p.guards[label]():
            raise Divergence("blocked", f"{key} at `{p.op}`: {label} is not enabled in the real state")
        lt.chosen = label
        lt.go.release()
        if not lt.parked.acquire(timeout=STEP_TIMEOUT):
            raise MachineryError(f"logical thread {key} did not reach a synchronisation point after {label}")

    def enabled_keys(self) -> set:
        return {k for k, lt in self.threads.items() if lt.pending is not None and lt.pending.enabled()}

    def abort(self):
        self.aborting = True
        for lt in self.threads.values():
            lt.go.release()
        for lt in self.threads.values():
            if lt.real is not None:
                lt.real.join(timeout=5)

    def all_finished(self) -> bool:
        return all(lt.finished for lt in self.threads.values())


# ---------------------------------------------------------------------------------------------
# pc tables: synchronisation point at which a logical thread is parked -> pc of spec/Executor.tla

# submit(): `with self._lock:` (lock_acquire) -> `self._shutdown.is_set()` (is_set) -> append/start (after_check,
# an extra point directly behind the flag test so that H_SetFlag can fall between test and append) -> release
SUB_PC = {"lock_acquire": "idle", "is_set": "locked", "after_check": "checked", "lock_release": None,  # see sub_pc
          "result": "waiting"}
SHUT_PC = {"set": "idle", "lock_acquire": "flagged", "lock_acquired": "locked",
           "wait_tasks": "waitcancels", "lock_release": "unlock", "result": "joining"}
WRK_PC = {"popen": "spawned", "communicate": "communicating", "poll": "finally", "ps": "cancelling",
          "term": "cancelling", "wait": "cancelling", "kill": "cancelling", "close": "cancelling",
          "set_result": "setresult"}
CANCEL_OPS = ("ps", "term", "wait", "kill", "close")
CAN_PC = {"begin": "begin", "poll": "poll", "ps": "ps", "term": "term", "wait": "wait", "kill": "kill",
          "close": "close"}
LABEL_KINDS = {"S_": ("sub",), "R_": ("sub",), "H_": ("shut",), "W_": ("wrk",), "C_": ("wrk", "can")}


SHUTS = ("s1", "s2")


def _tup(x):
    """JSON lists (thread ids such as ["s1", "j1"]) -> hashable tuples."""
    return tuple(_tup(y) for y in x) if isinstance(x, (list, tuple)) else x


def _true():
    return True


def sub_pc(lt) -> str:
    op = lt.pending.op
    if op == "lock_release":  # released after the registration, or on the way out with ShutdownError
        return "started" if ("after_check" in lt.ops or "lock_acquired" in lt.ops) else "rejecting"
    if "is_set" in lt.ops[:-1] and op in ("lock_acquire", "lock_acquired"):  # old order (negative control)
        return {"lock_acquire": "checked", "lock_acquired": "locked"}[op]
    if op == "is_set" and lt.ops == ["is_set"]:  # old order: the flag test is the first thing submit does
        return "idle"
    return SUB_PC.get(op) or f"?{op}"


# ---------------------------------------------------------------------------------------------
# controlled equivalents


class FakeProc:
    """Simulated child process + the Popen object of it."""

    def __init__(self, rp: "Replay", job: str, cmd, timeout_holder):
        self.rp = rp
        self.job = job
        self.args = cmd
        self.pid = rp.next_pid()
        self.state = "running"  # running | exited | killed
        self.returncode = None
        self.stdout = FakeStream(rp, self, first=True)
        self.stderr = FakeStream(rp, self, first=False)
        self.stdin = None
        self.sclosed = False  # cancel() of shutdown (thread can j) went through the stream clean-up

    def _reap(self):
        if self.returncode is None:
            self.returncode = 0 if self.state == "exited" else -15

    def communicate(self, input=None, timeout=None):  # noqa: A002
        lab = self.rp.sched.yield_point(
            "communicate",
            {
                "W_Return": lambda: self.state != "running",
                "W_Timeout": lambda: (self.state == "running" or self.sclosed) and timeout is not None,
                "W_CommBroken": lambda: self.sclosed,
            },
        )
        if lab == "W_Timeout":
            raise subprocess.TimeoutExpired(self.args, timeout)
        if lab == "W_CommBroken":
            raise OSError(9, "Bad file descriptor (simulated: pipes closed under communicate)")
        self._reap()
        self.stdout.closed_ = True
        self.stderr.closed_ = True
        return ("", "")

    def poll(self):
        self.rp.sched.yield_point("poll", {"W_FinallyCancel": _true, "C_IsRunning": _true})
        if self.state == "running":
            return None
        self._reap()
        return self.returncode

    def wait(self, timeout=None):  # not used by processes.py
        raise MachineryError("Popen.wait is not expected to be called by processes.py")


class FakeStream:
    def __init__(self, rp, proc, first):
        self.rp = rp
        self.proc = proc
        self.first = first
        self.closed_ = False

    @property
    def closed(self):
        if self.first:  # the three stream closes are one action (C_Close); the point is the first test
            self.rp.sched.yield_point("close", {"C_Close": _true})
            if self.rp.sched.current().key[0] == "can":
                self.proc.sclosed = True
        return self.closed_

    def close(self):
        self.closed_ = True


class FakePsProc:
    def __init__(self, rp, proc: FakeProc):
        self.rp = rp
        self.proc = proc
        self.pid = proc.pid

    def children(self, recursive=False):
        return []

    def terminate(self):
        self.rp.sched.yield_point("term", {"C_Terminate": _true})
        if self.proc.state == "running" and self.proc.job not in self.rp.ignores_term:
            self.proc.state = "killed"

    def wait(self, timeout=None):
        self.rp.sched.yield_point("wait", {"C_Wait": _true})
        if self.proc.state == "running":
            raise _real_psutil.TimeoutExpired(timeout, pid=self.pid)
        return 0

    def is_running(self):
        self.rp.sched.yield_point("kill", {"C_Kill": _true})
        return self.proc.state == "running"

    def kill(self):
        if self.proc.state == "running":
            self.proc.state = "killed"


class FakeTask:
    def __init__(self):
        self.finished = False


# ---------------------------------------------------------------------------------------------
# one replay


class Replay:
    """One executor, its jobs and its logical threads, under the deterministic scheduler."""

    def __init__(self, jobs, mode, has_timeout=(), ignores_term=(), double_delivery=False, solve_dir=None):
        self.jobs = list(jobs)
        # mode: the shutdown call of each caller thread, {"s1": .., "s2": ..} (a plain string = s1 only)
        self.modes = dict(mode) if isinstance(mode, dict) else {"s1": mode, "s2": "none"}
        for sh in SHUTS:
            self.modes.setdefault(sh, "none")
        self.has_timeout = set(has_timeout)
        self.ignores_term = set(ignores_term)
        self.double_delivery = double_delivery
        self.sched = Scheduler()
        self._pid = 4000
        self.set_result_calls = {j: 0 for j in self.jobs}
        self.seen = {j: "none" for j in self.jobs}
        self.sub_out = {j: None for j in self.jobs}
        self.shut_out = {sh: None for sh in SHUTS}
        self.notes: list[str] = []
        # facts observed on the real objects that name a race (not taken from the model)
        self.appended_with_flag = {j: False for j in self.jobs}     # flag already set when j entered _futures
        self.appended_after_return = {j: False for j in self.jobs}  # shutdown() had already returned/raised
        self.cancel_found_no_process = {j: False for j in self.jobs}  # f.cancel ran before the worker's Popen
        self.ex = P.PopenExecutor()
        self.solve_dir = solve_dir
        self.solve_result = {j: None for j in self.jobs}
        if solve_dir is None:
            self.futs = {j: P.PopenFuture(["simulated", j], timeout=(1.0 if j in self.has_timeout else None))
                         for j in self.jobs}
        else:
            # the submitter is halmos.solve.solve_low_level itself; it creates the future (registered by
            # FakeThread.start when the worker thread is created)
            self.futs = {j: None for j in self.jobs}
            self.pctx = {j: _solve_ctx(solve_dir, j, self.ex, j in self.has_timeout) for j in self.jobs}
        self.job_of = {id(f): j for j, f in self.futs.items() if f is not None}
        for j in self.jobs:
            self.sched.spawn(("sub", j), lambda j=j: self._sub_body(j))
        for sh in SHUTS:
            if self.modes[sh] != "none":
                self.sched.spawn(("shut", sh), lambda sh=sh: self._shut_body(sh))

    def next_pid(self):
        self._pid += 1
        return self._pid

    # -- bodies of the harness-owned logical threads (what solve_low_level / halmos do)
    def _sub_body(self, j):
        if self.solve_dir is not None:
            return self._sub_body_solve(j)
        fut = self.futs[j]
        try:
            self.ex.submit(fut)
        except P.ShutdownError:
            self.sub_out[j] = "rejected"
            return
        try:
            r = fut.result()
            self.seen[j] = "tuple" if isinstance(r, tuple) and len(r) == 3 else f"bad-result:{r!r}"
        except subprocess.TimeoutExpired:
            self.seen[j] = "timeout"
        except OSError:
            self.seen[j] = "oserror"
        self.sub_out[j] = "got"

    def _sub_body_solve(self, j):
        from z3 import sat, unknown, unsat

        from halmos.solve import EXIT_TIMEDOUT, solve_low_level

        try:
            out = solve_low_level(self.pctx[j])
        except P.ShutdownError:
            self.sub_out[j] = "rejected"
            return
        except OSError:
            self.seen[j] = "oserror"
            self.sub_out[j] = "got"
            return
        r = out.result
        self.solve_result[j] = "unsat" if r == unsat else "sat" if r == sat else "unknown" if r == unknown else str(r)
        self.seen[j] = "timeout" if (r == unknown and out.returncode == EXIT_TIMEDOUT) else "tuple"
        self.sub_out[j] = "got"

    def _shut_body(self, sh):
        try:
            self.ex.shutdown(wait=(self.modes[sh] == "wait"))
            self.shut_out[sh] = "returned"
        except (subprocess.TimeoutExpired, OSError):
            self.shut_out[sh] = "raised"

    # -- projection of the real objects onto the variables of Executor.tla
    def observe(self) -> dict:
        th = self.sched.threads
        ex = self.ex
        owner = ex._lock.owner
        lock = ["free"] if owner is None else [owner[0], owner[1]]
        o = {
            "flag": bool(ex._shutdown.flag),
            "lock": lock,
            "futures": [self.job_of.get(id(f), "?") for f in ex._futures],
            "spc": {}, "wpc": {}, "proc": {}, "exc": {}, "delivered": {}, "seen": dict(self.seen),
            "cw": {}, "ch": {sh: {} for sh in SHUTS}, "sclosed": {}, "hpc": {}, "joining": {},
        }
        for j in self.jobs:
            lt = th[("sub", j)]
            if lt.finished:
                o["spc"][j] = self.sub_out[j] if lt.error is None else f"died:{type(lt.error).__name__}"
            else:
                o["spc"][j] = sub_pc(lt)
            w = th.get(("wrk", j))
            if w is None:
                o["wpc"][j], o["cw"][j] = "idle", "none"
            elif w.finished:
                o["wpc"][j] = "done" if w.error is None else f"died:{type(w.error).__name__}"
                o["cw"][j] = "done" if "ps" in w.ops else "none"
            else:
                op = w.pending.op
                o["wpc"][j] = WRK_PC.get(op, f"?{op}")
                o["cw"][j] = op if op in CANCEL_OPS else ("done" if "ps" in w.ops else "none")
            for sh in SHUTS:
                c = th.get(("can", (sh, j)))
                if c is None:
                    o["ch"][sh][j] = "none"
                elif c.finished:
                    o["ch"][sh][j] = "done" if c.error is None else f"died:{type(c.error).__name__}"
                else:
                    o["ch"][sh][j] = CAN_PC.get(c.pending.op, f"?{c.pending.op}")
            f = self.futs[j]
            if f is None:  # solve_low_level has not created/submitted it yet
                o["proc"][j], o["sclosed"][j], o["exc"][j], o["delivered"][j] = "none", False, "none", 0
                continue
            o["proc"][j] = "none" if f.process is None else f.process.state
            o["sclosed"][j] = False if f.process is None else f.process.sclosed
            e = f._exception
            o["exc"][j] = ("none" if e is None else "timeout" if isinstance(e, subprocess.TimeoutExpired)
                           else "oserror" if isinstance(e, OSError) else f"other:{type(e).__name__}")
            o["delivered"][j] = self.set_result_calls[j]
            if (self.set_result_calls[j] >= 1) != f.done():
                o["delivered"][j] = f"calls={self.set_result_calls[j]},done={f.done()}"
        for sh in SHUTS:
            s = th.get(("shut", sh))
            if s is None:
                o["hpc"][sh] = "idle"
            elif s.finished:
                o["hpc"][sh] = self.shut_out[sh] if s.error is None else f"died:{type(s.error).__name__}"
            else:
                o["hpc"][sh] = SHUT_PC.get(s.pending.op, f"?{s.pending.op}")
                if s.pending.op == "result":
                    o["joining"][sh] = self.job_of.get(id(s.pending.info), "?")
        return o

    def running_jobs(self):
        return [j for j in self.jobs if self.futs[j] is not None and self.futs[j].process is not None
                and self.futs[j].process.state == "running"]

    # -- steps
    def env_exit(self, j):
        p = self.futs[j].process if self.futs[j] is not None else None
        if p is None or p.state != "running":
            raise Divergence("blocked", f"Env_Exit({j}): the real state has no running process for {j}")
        p.state = "exited"

    def do(self, label: dict):
        k, j, a = label["k"], _tup(label["j"]), label["a"]
        if k == "env":
            self.env_exit(j)
            return
        kinds = LABEL_KINDS.get(a[:2], ())
        if k not in kinds:
            raise Divergence("wrong-op", f"action {a} cannot be executed by a thread of kind {k}")
        nfut = len(self.ex._futures)
        self.sched.step((k, j), a)
        self._note_facts(k, j, nfut)

    def _note_facts(self, k, j, nfut_before):
        th = self.sched.threads
        if k == "sub" and len(self.ex._futures) == nfut_before + 1:
            self.appended_with_flag[j] = bool(self.ex._shutdown.flag)
            self.appended_after_return[j] = any(
                th.get(("shut", sh)) is not None and th[("shut", sh)].finished for sh in SHUTS)
        if k == "can":
            job = j[1]
            c, w = th[("can", j)], th.get(("wrk", job))
            if (c.finished and c.ops == ["begin"] and self.futs[job] is not None and self.futs[job].process is None
                    and w is not None and not w.finished and w.pending.op == "popen"):
                self.cancel_found_no_process[job] = True

    def drain(self, limit=500):
        """Run everything to completion with default choices (used after a schedule prefix)."""
        n = 0
        while n < limit:
            n += 1
            en = sorted(self.sched.enabled_keys(), key=repr)
            if en:
                lt = self.sched.threads[en[0]]
                for lab, g in lt.pending.guards.items():
                    if lab in ("W_PopenFail", "C_PsGone", "W_CommBroken"):
                        continue
                    if g() and LABEL_KINDS.get(lab[:2]) and en[0][0] in LABEL_KINDS[lab[:2]]:
                        nfut = len(self.ex._futures)
                        self.sched.step(en[0], lab)
                        self._note_facts(en[0][0], en[0][1], nfut)
                        break
                else:
                    raise MachineryError(f"drain: no applicable label for {en[0]} at {lt.pending.op}")
                continue
            run = self.running_jobs()
            if run:
                self.env_exit(run[0])
                continue
            break
        return self.sched.all_finished()

    def close(self):
        self.sched.abort()


# ---------------------------------------------------------------------------------------------
# substitution of the module-level names of halmos.processes

_ACTIVE: list = []  # the Replay the fakes talk to (one at a time)
_PATCH_LOCK = _rt.Lock()


def _rp() -> Replay:
    return _ACTIVE[-1]


class _PendingRp:
    """Stand-in used while the Replay object is being constructed (its constructor creates the executor)."""


def _sched() -> Scheduler:
    return _ACTIVE[-1].sched


class FakeEvent:
    def __init__(self):
        self.flag = False

    def is_set(self):
        s = _sched()
        s.yield_point("is_set", {"S_Check": _true})
        v = self.flag
        cur = s.current()
        if not v and cur.key[0] == "sub" and _rp().ex._lock.owner == cur.key:
            # flag tested under the lock (code after 929919f): the registration is the next action
            s.yield_point("after_check", {"S_AppendStart": _true})
        return v

    def set(self):
        _sched().yield_point("set", {"H_SetFlag": _true})
        self.flag = True


class FakeLock:
    def __init__(self):
        self.owner = None

    def acquire(self, blocking=True, timeout=-1):
        s = _sched()
        free = lambda: self.owner is None  # noqa: E731
        s.yield_point("lock_acquire", {"S_Lock": free, "H_Lock": free})
        if self.owner is not None:
            raise MachineryError("scheduler let a thread acquire a held lock")
        self.owner = s.current().key
        cur = s.current()
        if self.owner[0] == "shut":  # what shutdown does under the lock is one action of its own
            nowait = _rp().modes[self.owner[1]] == "nowait"
            s.yield_point("lock_acquired", {"H_CancelAll": lambda: nowait, "H_Snapshot": lambda: not nowait})
        elif "is_set" in cur.ops:
            # flag tested BEFORE the lock was taken (order of the code before 929919f; only reached by the
            # negative control that substitutes the old submit): the registration follows the acquire
            s.yield_point("lock_acquired", {"S_AppendStart": _true})
        return True

    def release(self):
        s = _sched()
        cur = s.current()
        appended = "after_check" in cur.ops or "lock_acquired" in cur.ops
        s.yield_point("lock_release", {"S_Unlock": lambda: appended, "S_Reject": lambda: not appended,
                                       "H_Unlock": _true})
        if self.owner != cur.key:
            raise Divergence("lock", f"{cur.key} releases a lock owned by {self.owner}")
        self.owner = None

    __enter__ = acquire

    def __exit__(self, *a):
        self.release()
        return False


class FakeThread:
    def __init__(self, target=None, daemon=None, **kw):
        self.target = target
        self.daemon = daemon

    def start(self):
        s = _sched()
        cur = s.current()
        if cur is None or cur.key[0] != "sub":
            raise Divergence("spawn", f"worker thread started by {cur.key if cur else None}, expected a submitter")
        rp = _rp()
        if self.daemon:
            rp.notes.append("worker thread is a daemon thread")
        j = cur.key[1]
        if rp.futs[j] is None:  # future created by solve_low_level: `run` closes over it
            cells = [c.cell_contents for c in (getattr(self.target, "__closure__", None) or ())]
            fut = next((c for c in cells if isinstance(c, P.PopenFuture)), None)
            if fut is None:
                raise Divergence("spawn", "worker target does not close over its PopenFuture")
            rp.futs[j] = fut
            rp.job_of[id(fut)] = j
        s.spawn(("wrk", j), self.target)


def fake_popen(cmd, **kw):
    rp = _rp()
    s = rp.sched
    j = s.current().key[1]
    lab = s.yield_point("popen", {"W_Popen": _true, "W_PopenFail": _true})
    if lab == "W_PopenFail":
        raise FileNotFoundError(2, "simulated Popen failure", str(cmd[0]))
    return FakeProc(rp, j, cmd, None)


class FakePsutil:
    NoSuchProcess = _real_psutil.NoSuchProcess
    TimeoutExpired = _real_psutil.TimeoutExpired

    @staticmethod
    def Process(pid):  # noqa: N802
        rp = _rp()
        proc = next((f.process for f in rp.futs.values()
                     if f is not None and f.process is not None and f.process.pid == pid), None)
        if proc is None:
            raise MachineryError(f"psutil.Process({pid}): unknown simulated pid")
        lab = rp.sched.yield_point(
            "ps", {"C_PsProcess": _true, "C_PsGone": lambda: proc.state != "running"}
        )
        if lab == "C_PsGone":
            raise _real_psutil.NoSuchProcess(pid)
        return FakePsProc(rp, proc)


class FakePool:
    def __init__(self, *a, **kw):
        self.tasks = []

    def __enter__(self):
        return self

    def __exit__(self, *a):
        if not all(t.finished for t in self.tasks):
            raise Divergence("pool", "cancel pool left while a cancel task is still running")
        return False

    def submit(self, fn, *a, **kw):
        rp = _rp()
        fut = getattr(fn, "__self__", None)
        j = rp.job_of.get(id(fut))
        if j is None or getattr(fn, "__name__", "") != "cancel":
            raise Divergence("pool", f"unexpected task submitted to the cancel pool: {fn!r}")
        t = FakeTask()
        self.tasks.append(t)

        def body():
            rp.sched.yield_point("begin", {"C_Begin": _true})
            fn(*a, **kw)
            t.finished = True

        rp.sched.spawn(("can", (rp.sched.current().key[1], j)), body)
        return t


def fake_wait(tasks, timeout=None, return_when=None):
    tasks = list(tasks)
    _sched().yield_point("wait_tasks", {"H_WaitCancels": lambda: all(t.finished for t in tasks)})
    return (set(tasks), set())


def _wrapped_set_result(self, result):
    rp = _rp()
    j = rp.job_of.get(id(self))
    rp.sched.yield_point("set_result", {"W_SetResult": _true})
    _cf.Future.set_result(self, result)
    rp.set_result_calls[j] += 1
    if rp.double_delivery:  # negative control: a wrapper that delivers twice
        try:
            _cf.Future.set_result(self, result)
        except _cf.InvalidStateError:
            pass
        rp.set_result_calls[j] += 1


_ORIG_RESULT = P.PopenFuture.__dict__["result"]


def _wrapped_result(self, timeout=None):
    _sched().yield_point("result", {"R_Result": self.done, "H_Join": self.done}, info=self)
    return _ORIG_RESULT(self, timeout=timeout)


@contextmanager
def controlled(submit_override=None):
    """Substitute the controlled equivalents in halmos.processes (module namespace only) and restore them."""
    with _PATCH_LOCK:
        saved = {n: getattr(P, n) for n in ("threading", "Popen", "psutil", "concurrent")}
        saved_submit = P.PopenExecutor.__dict__["submit"]
        P.threading = types.SimpleNamespace(Thread=FakeThread, Event=FakeEvent, Lock=FakeLock)
        P.Popen = fake_popen
        P.psutil = FakePsutil
        P.concurrent = types.SimpleNamespace(
            futures=types.SimpleNamespace(
                ThreadPoolExecutor=FakePool,
                wait=fake_wait,
                CancelledError=_cf.CancelledError,
                Future=_cf.Future,
                Executor=_cf.Executor,
            )
        )
        P.PopenFuture.set_result = _wrapped_set_result
        P.PopenFuture.result = _wrapped_result
        if submit_override is not None:
            P.PopenExecutor.submit = submit_override
        try:
            yield
        finally:
            for n, v in saved.items():
                setattr(P, n, v)
            del P.PopenFuture.set_result
            P.PopenFuture.result = _ORIG_RESULT
            P.PopenExecutor.submit = saved_submit


# ---------------------------------------------------------------------------------------------
# replaying one TLC behaviour

COMPARED = ("flag", "lock", "futures", "spc", "wpc", "proc", "exc", "delivered", "seen", "hpc", "cw", "ch",
            "sclosed")


def compare(expected: dict, observed: dict) -> list[str]:
    out = []
    for k in COMPARED:
        if k in expected and expected[k] != observed.get(k):
            out.append(f"{k}: spec={expected[k]!r} code={observed.get(k)!r}")
    for sh, pc in (expected.get("hpc") or {}).items():
        if pc == "joining" and "snap" in expected:
            want = expected["snap"][sh][expected["hidx"][sh] - 1]
            if observed.get("joining", {}).get(sh) != want:
                out.append(f"joining[{sh}]: spec={want!r} code={observed.get('joining', {}).get(sh)!r}")
    return out


@dataclass
class ReplayResult:
    steps: int = 0
    final: dict = None
    rp_notes: list = field(default_factory=list)
    observations: list = field(default_factory=list)  # property-level observations on the real objects
    facts: dict = field(default_factory=dict)  # race-naming facts of the real run


_SOLVE_ARGS: dict = {}


def _solve_ctx(solve_dir, j, executor, has_timeout):
    """PathContext for solve_low_level: real Config, real SolvingContext around the replay's executor."""
    from halmos.config import ConfigSource, arg_parser, default_config
    from halmos.sevm import SMTQuery
    from halmos.solve import PathContext, SolvingContext

    if has_timeout not in _SOLVE_ARGS:
        ns = arg_parser().parse_args(["--solver-command", "simulated-solver",
                                      "--solver-timeout-assertion", "1s" if has_timeout else "0"])
        _SOLVE_ARGS[has_timeout] = default_config().with_overrides(ConfigSource.command_line, **vars(ns))
    d = solve_dir / j
    d.mkdir(parents=True, exist_ok=True)
    sctx = SolvingContext(dump_dir=d, executor=executor)
    return PathContext(args=_SOLVE_ARGS[has_timeout], path_id=int(j[1:]), solving_ctx=sctx,
                       query=SMTQuery("(assert true)", []))


def property_monitor(rp: Replay, obs: dict, found: list, step: int):
    """Checks of C17 made directly on the real objects after a step (independent of the model state).
    One entry (kind, job, first step) per kind and job."""
    out = []
    _property_monitor(rp, obs, out, step)
    have = {(k, j) for k, j, _ in found}
    for k, j, s in out:
        if (k, j) not in have:
            have.add((k, j))
            found.append((k, j, s))


def _property_monitor(rp: Replay, obs: dict, out: list, step: int):
    for j in rp.jobs:
        if isinstance(obs["delivered"][j], str) or obs["delivered"][j] > 1:
            out.append(("delivered-twice", j, step))
        f = rp.futs[j]
        if f is not None and isinstance(f._exception, subprocess.TimeoutExpired):
            if rp.seen[j] not in ("none", "timeout"):
                out.append(("timeout-seen-as-result", j, step))
            if rp.solve_result[j] not in (None, "unknown"):
                out.append(("solver-timeout-reported-as-" + rp.solve_result[j], j, step))
    for j in rp.jobs:
        if rp.appended_after_return[j]:
            out.append(("accepted-after-shutdown-returned", j, step))
    if any(rp.modes[sh] == "nowait" and obs["hpc"][sh] == "returned" for sh in SHUTS):
        for j in rp.running_jobs():
            out.append(("running-after-shutdown-nowait", j, step))
    for sh in SHUTS:
        if rp.modes[sh] == "wait" and obs["hpc"][sh] in ("returned", "raised"):
            for j in rp.running_jobs():
                out.append(("running-after-shutdown-wait:" + obs["hpc"][sh], j, step))


def replay_schedule(
    jobs, mode, steps, *, has_timeout=(), ignores_term=(), finish=True, double_delivery=False,
    submit_override=None, check_enabled=True, solve_dir=None,
) -> ReplayResult:
    """steps: list of {"a": label, "s": expected projection, optional "en": enabled threads before the step}.
    Raises Divergence when the real code cannot follow or reaches a different state."""
    res = ReplayResult()
    with controlled(submit_override=submit_override):
        rp = Replay.__new__(Replay)
        _ACTIVE.append(rp)
        try:
            rp.__init__(jobs, mode, has_timeout, ignores_term, double_delivery, solve_dir)
            for i, st in enumerate(steps):
                lab = st["a"]
                if check_enabled and "en" in st:
                    want = {_tup(x) for x in st["en"]}
                    got = rp.sched.enabled_keys()
                    if want != got:
                        raise Divergence(
                            "enabled-set",
                            f"before step {i}: spec enables {sorted(want)}, code can run {sorted(got)}", i, lab,
                        )
                try:
                    rp.do(lab)
                except Divergence as d:
                    d.step, d.label = i, lab
                    raise
                obs = rp.observe()
                diffs = compare(st["s"], obs)
                if diffs:
                    raise Divergence("state", f"after step {i} {lab}: " + "; ".join(diffs), i, lab)
                property_monitor(rp, obs, res.observations, i)
                res.steps += 1
            res.final = rp.observe()
            if finish:
                done = rp.drain()
                obs = rp.observe()
                property_monitor(rp, obs, res.observations, len(steps))
                if not done:
                    raise Divergence("not-finished", f"threads left after draining: {obs}")
                for j in rp.jobs:
                    if obs["wpc"][j] == "done" and obs["delivered"][j] != 1:
                        res.observations.append(("not-delivered-exactly-once", j, len(steps)))
            res.rp_notes = rp.notes
        finally:
            if getattr(rp, "appended_with_flag", None) is not None:
                res.facts = {"appended_with_flag": dict(rp.appended_with_flag),
                             "appended_after_return": dict(rp.appended_after_return),
                             "cancel_found_no_process": dict(rp.cancel_found_no_process)}
            if getattr(rp, "sched", None) is not None:
                rp.close()
            _ACTIVE.pop()
    return res
