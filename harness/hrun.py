"""Driving halmos' symbolic EVM (SEVM) on hand-assembled worlds, from its public entry points.

Nothing in /repo is edited: the driver builds the same objects the test-suite builds
(`SEVM`, `Exec` via `mk_exec`, `Message`, `Path`) and observes the yielded `Exec`s.
"""

from __future__ import annotations

import io
import logging
import sys
from contextlib import contextmanager
from dataclasses import dataclass, field

from .common import repo_python_path

repo_python_path()

import z3  # noqa: E402

# halmos.__main__ reconfigures sys.stdout on import; import it once, early
import halmos.__main__ as hmain  # noqa: E402
from halmos.bytevec import ByteVec  # noqa: E402
from halmos.calldata import FunctionInfo  # noqa: E402
from halmos.config import ConfigSource, arg_parser, default_config  # noqa: E402
from halmos.contract import Contract  # noqa: E402
from halmos.exceptions import HalmosException  # noqa: E402
from halmos.sevm import SEVM, CallContext, Message, Path  # noqa: E402
from halmos.utils import EVM, con, con_addr  # noqa: E402

TARGET = 0x00000000000000000000000000000000000A11CE  # default address of the program under test
CALLER = 0x00000000000000000000000000000000000CA11E
ORIGIN = 0x0000000000000000000000000000000000000B0B
CREATE_BASE = 0xAAAA0002  # first address handed out by Exec.new_address() in a fresh run


def mk_args(*cli: str):
    ns = arg_parser().parse_args(list(cli))
    return default_config().with_overrides(ConfigSource.command_line, **vars(ns))


@contextmanager
def captured_logs():
    """Capture what halmos writes through its loggers (warnings) and stdout."""
    buf = io.StringIO()
    handler = logging.StreamHandler(buf)
    handler.setLevel(logging.DEBUG)
    loggers = [logging.getLogger("halmos"), logging.getLogger("halmos.unique")]
    saved = [(lg, list(lg.handlers), lg.propagate) for lg in loggers]
    for lg in loggers:
        lg.handlers = [handler]  # capture instead of printing through halmos' console handler
        lg.propagate = False
    try:
        yield buf
    finally:
        for lg, hs, prop in saved:
            lg.handlers = hs
            lg.propagate = prop


@dataclass
class Sym:
    """A symbolic input: name, bit size."""

    name: str
    bits: int

    def z3(self):
        return z3.BitVec(self.name, self.bits)


@dataclass
class Prog:
    """A world + one message, with symbolic inputs."""

    accounts: dict[int, bytes]  # address -> runtime code
    target: int = TARGET
    calldata: list = field(default_factory=list)  # items: bytes | Sym (bits multiple of 8)
    caller: int | Sym = CALLER
    origin: int | Sym = ORIGIN
    value: int | Sym = 0
    balances: dict[int, int | Sym] = field(default_factory=dict)  # initial balances (others 0)
    storage: dict[tuple[int, int], int] = field(default_factory=dict)  # concrete initial storage
    static: bool = False
    create: bool = False  # the message is a creation: calldata is the init code
    symstore: set = field(default_factory=set)  # accounts whose storage is symbolic (arbitrary initial contents)
    name: str = ""
    meta: dict = field(default_factory=dict)

    def symbols(self) -> list[Sym]:
        out = [x for x in self.calldata if isinstance(x, Sym)]
        for x in (self.caller, self.origin, self.value):
            if isinstance(x, Sym):
                out.append(x)
        out += [b for b in self.balances.values() if isinstance(b, Sym)]
        return out


@dataclass
class PathRec:
    conditions: list  # z3 BoolRefs in order
    error: str | None  # None = success; class name of the error otherwise
    stuck: bool
    data: object  # bytes | z3 expr | None
    logs: list  # [(addr, [topics], data)]
    ex: object
    stuck_reason: str | None = None


@dataclass
class HRun:
    paths: list[PathRec]
    bounded: int
    warnings: str
    exception: str | None = None


def _addr(x):
    return con_addr(x) if isinstance(x, int) else x.z3()


def build_exec(prog: Prog, sevm: SEVM, solver) -> object:
    code = {con_addr(a): Contract(c) for a, c in prog.accounts.items()}
    storage = {a: sevm.mk_storagedata() for a in code}
    tstorage = {a: sevm.mk_storagedata() for a in code}
    for a in prog.symstore:
        storage[con_addr(a)].symbolic = True  # what svm.enableSymbolicStorage(a) does
    target = con_addr(prog.target)
    cd = ByteVec()
    for item in prog.calldata:
        if isinstance(item, Sym):
            cd.append(item.z3())
        else:
            cd.append(item)
    value = con(prog.value) if isinstance(prog.value, int) else prog.value.z3()
    message = Message(
        target=target,
        caller=_addr(prog.caller),
        origin=_addr(prog.origin),
        value=value,
        data=cd,
        call_scheme=EVM.CREATE if prog.create else EVM.CALL,
        is_static=prog.static,
    )
    if prog.create:
        pgm = Contract(cd)
        if target not in code:
            code[target] = Contract(b"")
            storage[target] = sevm.mk_storagedata()
            tstorage[target] = sevm.mk_storagedata()
    else:
        pgm = code[target]
    ex = sevm.mk_exec(
        code=code,
        storage=storage,
        transient_storage=tstorage,
        balance=hmain.EMPTY_BALANCE,
        block=hmain.mk_block(),
        context=CallContext(message=message),
        pgm=pgm,
        path=Path(solver),
    )
    for a, b in prog.balances.items():
        ex.balance_update(con_addr(a), con(b) if isinstance(b, int) else b.z3())
    for (a, slot), v in prog.storage.items():
        sevm.sstore(ex, con_addr(a), _bv(slot), _bv(v))
    return ex


def _bv(n: int):
    from halmos.bitvec import HalmosBitVec

    return HalmosBitVec(n, size=256)


def path_rec(ex) -> PathRec:
    out = ex.context.output
    err = out.error
    stuck = ex.context.is_stuck()
    data = None
    if out.data is not None:
        data = out.data.unwrap()
    logs = []
    from halmos.sevm import EventLog

    def walk(ctx):
        # logs of this frame and of its successful sub-frames, in emission order
        for t in ctx.trace:
            if isinstance(t, EventLog):
                logs.append((t.address, list(t.topics), t.data.unwrap() if t.data is not None else b""))
            elif isinstance(t, CallContext) and t.output.error is None:
                walk(t)

    walk(ex.context)
    reason = None
    if stuck:
        r = ex.context.get_stuck_reason()
        reason = f"{type(r).__name__}: {r}" if r is not None else "no output"
    return PathRec(
        conditions=list(ex.path.conditions.keys()),
        error=type(err).__name__ if err is not None else None,
        stuck=stuck,
        data=data,
        logs=logs,
        ex=ex,
        stuck_reason=reason,
    )


def run(prog: Prog, *cli: str, args=None) -> HRun:
    """Symbolically execute the message of `prog`; returns every yielded path."""
    # pseudo option of the harness: `--verif-unknown all` / `--verif-unknown <seed>` makes the branching solver
    # (Path.check, behind halmos' quick syntactic checks) answer `unknown` always / for a seeded half of its calls,
    # as it does when --solver-timeout-branching expires
    cli = list(cli)
    inject = None
    if "--verif-unknown" in cli:
        i = cli.index("--verif-unknown")
        inject = cli[i + 1]
        del cli[i : i + 2]
    args = args or mk_args("--solver-timeout-branching", "0", *cli)
    sevm = SEVM(args, FunctionInfo("Verif", "run", "run()", "c0406226"))
    solver = hmain.mk_solver(args)
    from halmos.mapper import BuildOut

    if BuildOut()._build_out_map is None:
        BuildOut().set_build_out({})  # what run_contract does before any execution
    paths = []
    exc = None
    orig_check = Path.check
    if inject is not None:
        import random as _random

        import z3 as _z3

        rnd = None if inject == "all" else _random.Random(int(inject))

        def check(self, cond):
            if rnd is None or rnd.random() < 0.5:
                return _z3.unknown
            return orig_check(self, cond)

        Path.check = check
    with captured_logs() as buf:
        try:
            ex0 = build_exec(prog, sevm, solver)
            for ex in sevm.run(ex0):
                paths.append(path_rec(ex))
        except Exception as e:  # noqa: BLE001 - an escaped exception is itself an observation
            exc = f"{type(e).__name__}: {e}"
        finally:
            warnings = buf.getvalue()
            Path.check = orig_check
    return HRun(paths=paths, bounded=len(sevm.logs.bounded_loops), warnings=warnings, exception=exc)
