"""Run an E1 corpus: generated programs x inputs, halmos vs Evm.tla, and classify disagreements."""

from __future__ import annotations

import hashlib
import random
import time
from dataclasses import dataclass, field

import z3

from . import e1, zeval
from .common import Check, MachineryError, cleanup, workdir
from .hrun import HRun, Prog, Sym, run as halmos_run


@dataclass
class Item:
    prog: Prog
    inputs: list[dict]
    hr: HRun | None = None
    key: str = ""
    cli: tuple = ()


def prog_key(prog: Prog) -> str:
    h = hashlib.sha1()
    for a, c in sorted(prog.accounts.items()):
        h.update(a.to_bytes(32, "big") + c)
    h.update(repr(prog.calldata).encode())
    return f"{prog.name}:{h.hexdigest()[:10]}"


def witness_inputs(prog: Prog, hr: HRun, limit: int = 2, timeout_ms: int = 1500) -> list[dict]:
    """Models of each reported path's constraints: inputs taken from the implementation itself."""
    syms = prog.symbols()
    out = []
    for p in hr.paths:
        s = z3.Solver()
        s.set(timeout=timeout_ms)
        for c in p.conditions:
            s.add(c)
        n = 0
        while n < limit and s.check() == z3.sat:
            mdl = s.model()
            inp = {}
            block = []
            for sy in syms:
                v = mdl.eval(sy.z3(), model_completion=True)
                inp[sy.name] = v.as_long()
                block.append(sy.z3() != v)
            out.append(inp)
            n += 1
            if not block:
                break
            s.add(z3.Or(block))
    return out


def normalize_input(prog: Prog, inp: dict) -> dict:
    """Clamp inputs to the documented modelling assumptions (A5: balances <= 2^128)."""
    r = dict(inp)
    for sy in prog.symbols():
        r.setdefault(sy.name, 0)
        r[sy.name] &= (1 << sy.bits) - 1
        if sy.name.startswith("bal_") and r[sy.name] > (1 << 128):
            r[sy.name] >>= 128
        # inputs the program uses as array indices / struct offsets stay "reasonable" (A4: a hash plus an
        # offset does not wrap around or reach another hash)
        bound = prog.meta.get("bounded_inputs", {}).get(sy.name)
        if bound:
            r[sy.name] %= bound
    return r


@dataclass
class Outcome:
    item: Item
    inp: dict
    rec: dict
    match: e1.Match
    clauses: list  # [(path index, clause)] soundness failures
    covered: bool
    flagged: bool  # exploration flagged incomplete (bounded loop, stuck path, escaped exception)
    skipped: str | None = None


def run_items(items: list[Item], chk: Check, *, witnesses: bool = True, max_steps: int = 20000, transfer=False) -> list[Outcome]:
    work = workdir(f"e1-{chk.pid}")
    try:
        cases = []
        index = {}
        cid = 0
        for it in items:
            it.key = it.key or prog_key(it.prog)
            if it.hr is None:
                it.hr = halmos_run(it.prog, *it.cli)
            extra = witness_inputs(it.prog, it.hr) if witnesses else []
            seen = set()
            allin = []
            for inp in list(it.inputs) + extra:
                inp = normalize_input(it.prog, inp)
                k = tuple(sorted(inp.items()))
                if k in seen:
                    continue
                seen.add(k)
                allin.append(inp)
            it.inputs = allin
            for inp in allin:
                cases.append(e1.to_case(cid, it.prog, inp, transfer=transfer))
                index[cid] = (it, inp)
                cid += 1
        recs, r = e1.run_spec(cases, work, max_steps=max_steps)
        chk.add_tlc(r)
        chk.count("spec_behaviours", len(cases))
        outs = []
        for cid, (it, inp) in index.items():
            rec = recs.get(cid)
            if rec is None:
                raise MachineryError(f"no terminal record for case {cid} of {it.key} (reference machine did not terminate?)")
            hr = it.hr
            if rec["status"] == "unmodelled":
                outs.append(Outcome(it, inp, rec, e1.Match(), [], True, False, skipped="unmodelled by the specification"))
                continue
            m = e1.match_paths(it.prog, hr, inp)
            if rec["status"] == "discard":
                # the input violates a vm.assume of the program: not an admissible input - nothing has to cover it, and a live
                # path that does is a soundness failure (clause reported to the caller's judge)
                live = [c for c in m.covering if not c.path.stuck]
                cl = [(c.index, "covers an input that violates vm.assume") for c in live]
                outs.append(Outcome(it, inp, rec, m, cl, bool(m.covering), False, skipped=None if cl else "input violates an assumption of the program"))
                continue
            clauses = []
            for cov in m.covering:
                if cov.path.stuck:
                    continue
                try:
                    cl = e1.compare_end_state(cov, rec, set(it.prog.accounts))
                except (zeval.Unbound, zeval.Unsupported) as e:
                    m.unevaluable.append((cov.index, f"output: {e}"))
                    continue
                if cl:
                    clauses.append((cov.index, cl))
            flagged = bool(hr.bounded) or hr.exception is not None or any(p.stuck for p in hr.paths)
            outs.append(Outcome(it, inp, rec, m, clauses, bool(m.covering), flagged))
        return outs
    finally:
        cleanup(work)


def release(items) -> None:
    """Drop the halmos states of judged items (thousands of programs would otherwise keep tens of GB of z3 terms alive)."""
    for it in items:
        it.hr = None


def describe(o: Outcome) -> dict:
    it = o.item
    return {
        "program": it.key,
        "code": {hex(a): c.hex() for a, c in it.prog.accounts.items()},
        "calldata_layout": repr(it.prog.calldata),
        "input": {k: hex(v) for k, v in o.inp.items()},
        "reference": {"ok": o.rec["ok"], "kind": o.rec["kind"], "data": bytes(o.rec["data"]).hex(), "nlogs": len(o.rec["logs"])},
        "halmos_paths": [
            {"error": p.error, "stuck": p.stuck_reason, "nconds": len(p.conditions)} for p in it.hr.paths
        ],
        "covering": [c.index for c in o.match.covering],
        "unevaluable": o.match.unevaluable,
        "halmos_exception": it.hr.exception,
        "meta": {k: str(v)[:2000] for k, v in it.prog.meta.items()},
    }
