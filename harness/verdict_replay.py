"""C05 conformance (spec -> code): behaviours of spec/Verdict.tla replayed through halmos' real run_test.

A *scenario* is one JSON record printed by TLC from Verdict.tla (RecordHist = TRUE): the assignment (`arms`:
path outcomes in exploration order with the scripted solver replies, `fl`: --early-exit / --cache-solver /
refinable queries), the schedule (`hist`: the sequence of model actions E S K SF B F R F2 C X with the path id)
and what the model says happens (`outputs`, `stuck`, `normal`, `raised`, `code`) and what the property requires
(`required`, `acceptable`).

Replay: each scenario becomes one test function `check_s<k>(uint256,uint256)` of a hand-assembled contract
(harness/artifacts.py): a chain of `if (x != i) goto next` whose fall-through arms end in STOP / REVERT /
Panic(1) / DSTest fail flag / an unsupported opcode; halmos explores the fall-through branch first, so arm i is
path id i (checked on every run).  The solver is `harness/stub_solver.py` (replies scripted per query file);
every stub process is *held* until the schedule reaches its SolverFinish action.  The order of the steps of
the main thread and of the pool threads is forced by gates placed - from this process, nothing in /repo is
edited - at the code sites the model's actions stand for:

  E  PopenExecutor.is_shutdown called by the main thread (head of run_test's loop)
  S  CounterexampleHandler.handle_assertion_violation
  K  halmos.__main__.solve_low_level (confirmation query of a stuck path)   SF  its return
  B  halmos.__main__.solve_end_to_end (pool thread), completed by PopenExecutor.submit
  R  halmos.solve.solve_low_level on the refined query, completed by PopenExecutor.submit
  F / F2  release of the held stub process (journal line awaited)
  C  CounterexampleHandler._solve_end_to_end_callback   X  PopenExecutor.shutdown

so no wall-clock delay decides an order.  Observed: TestResult.exitcode, the sequence of solver outputs seen
by the callbacks, the events at the gates, the stub journal (which queries reached a solver), shutdown calls.
"""

from __future__ import annotations

import contextlib
import errno
import io
import json
import os
import shutil
import signal
import threading
import time
import types
from dataclasses import dataclass, field
from pathlib import Path

from .artifacts import Contract, Fn, arg, dstest_fail, hmain, mk_context, panic, revert_plain
from .common import VERIF, MachineryError
from .hrun import captured_logs, mk_args

import halmos.processes as hproc  # noqa: E402
import halmos.solve as hsolve  # noqa: E402

STUB = str(VERIF / "harness" / "stub_solver.py")
PYTHON = "/venv/bin/python"
GATE_TIMEOUT_S = float(os.environ.get("VERIF_C05_GATE_TIMEOUT", "60"))
SOLVER_TIMEOUT = "3000ms"  # only for scenarios that contain a `timeout` reply (sequential schedules)

VIOL = ("panic", "failflag")
UNSAT_KINDS = ("unsat", "unsat_rc1", "unsat_shared", "unsat_nocore")
CLASS_OF = {0: "PASS", 1: "FAIL", 2: "TIMEOUT", 3: "ERROR", 4: "ERROR", 5: "ERROR"}


# ---------------------------------------------------------------------------------------------
# scenarios


@dataclass
class VScn:
    arms: list
    early: bool
    cache: bool
    refinable: bool
    hist: list  # [(e, p, x)]
    outputs: list  # [(p, r, v)]
    stuck: list
    normal: int
    raised: bool
    shutdown: bool
    code: int
    seqcode: int
    required: str
    acceptable: list
    prev: list = field(default_factory=list)
    pexit: int = -1
    tag: str = ""

    def key(self) -> str:
        return verdict_arms_key(self.arms) + "|" + verdict_flags_key(self)

    def sched_key(self) -> str:
        return ",".join(f"{e}{p}" for e, p, _ in self.hist)

    def has_kind(self, kind: str) -> bool:
        return any(a["r"] == kind or a["r2"] == kind for a in self.arms)

    def killed_stuck(self) -> bool:
        return any(e == "SF" and x.startswith("killed") for e, _, x in self.hist)


def verdict_arms_key(arms: list) -> str:
    out = []
    for a in arms:
        s = a["o"]
        if a["r"] != "none":
            s += f"({a['r']}" + (f">{a['r2']}" if a["r2"] != "none" else "") + ")"
        out.append(s)
    return ",".join(out)


def verdict_flags_key(s) -> str:
    f = [n for n, v in (("early-exit", s.early), ("cache-solver", s.cache), ("refinable", s.refinable)) if v]
    return "+".join(f) if f else "plain"


def verdict_from_record(rec: dict, tag: str = "") -> VScn:
    fl = rec["fl"]
    return VScn(
        arms=[dict(a) for a in rec["arms"]],
        early=bool(fl["early"]),
        cache=bool(fl["cache"]),
        refinable=bool(fl["refinable"]),
        hist=[(h["e"], int(h["p"]), h["x"]) for h in rec["hist"]],
        outputs=[(int(o["p"]), o["r"], bool(o["v"])) for o in rec["outputs"]],
        stuck=sorted(rec["stuck"]),
        normal=int(rec["normal"]),
        raised=bool(rec["raised"]),
        shutdown=bool(rec["shutdown"]),
        code=int(rec["code"]),
        seqcode=int(rec["seqcode"]),
        required=rec["required"],
        acceptable=list(rec["acceptable"]),
        prev=list(rec.get("prev", [])),
        pexit=int(rec.get("pexit", -1)),
        tag=tag,
    )


# ---- the REQUIRED verdict, re-stated in Python from the property text (cross-checked against the value TLC
# ---- computed from Verdict.tla for every replayed record; the negative controls mutate this table)


def verdict_class2(k: str) -> str:
    if k in ("sat_valid", "sat_abstract"):
        return "sat"
    if k in UNSAT_KINDS:
        return "unsat"
    if k in ("unknown", "timeout"):
        return "to"
    return "fail"


def verdict_qclass(a: dict) -> str:
    if a["r"] == "sat_valid":
        return "sat"
    if a["r"] == "sat_abstract":
        return "sat" if a["r2"] == "none" else verdict_class2(a["r2"])
    return verdict_class2(a["r"])


def verdict_required(arms: list, mutate: str | None = None) -> str:
    qc = [verdict_qclass(a) for a in arms if a["o"] in VIOL]
    if mutate == "unknown-as-unsat":
        qc = ["unsat" if c == "to" else c for c in qc]
    stuck = [a for a in arms if a["o"] == "stuck" and a["r"] not in UNSAT_KINDS]
    if mutate == "stuck-ignored":
        stuck = []
    succ = [a for a in arms if a["o"] == "success"]
    err = "fail" in qc or bool(stuck) or not succ
    to = "to" in qc
    if "sat" in qc:
        return "FAIL"
    if mutate == "swap-error-timeout":
        return "TIMEOUT" if to else "ERROR" if err else "PASS"
    return "ERROR" if err else "TIMEOUT" if to else "PASS"


def verdict_acceptable(arms: list) -> set:
    req = verdict_required(arms)
    acc = {req}
    if any(a["o"] == "stuck" and a["r"] == "spawnfail" for a in arms):
        # UNCONSTRAINED: a spawn failure is not among the property's solver replies; for the synchronous confirmation
        # query of a stuck path any non-PASS verdict is accepted
        acc |= {"FAIL", "ERROR", "TIMEOUT"}
    qc = [verdict_qclass(a) for a in arms if a["o"] in VIOL]
    stuck = [a for a in arms if a["o"] == "stuck" and a["r"] not in UNSAT_KINDS]
    if req == "ERROR" and not stuck and "fail" not in qc and "to" in qc:
        acc.add("TIMEOUT")  # "no path succeeded" has no label in the property text
    return acc


# ---------------------------------------------------------------------------------------------
# test contracts


def verdict_body(arms: list, refinable: bool, pfx: str) -> list:
    """if (x != 0) goto n0; <arm 0>; n0: if (x != 1) goto n1; <arm 1>; ... <last arm>   (x = p0 or p0 / p1)"""
    scr = (arg(1) + arg(0) + ["DIV"]) if refinable else arg(0)
    code = {
        "success": ["STOP"],
        "revert": revert_plain(),
        "panic": panic(1),
        "failflag": dstest_fail() + ["STOP"],
        "stuck": [("RAW", bytes([0x0C]))],  # not an opcode halmos implements: the path ends in a HalmosException
    }
    prog = []
    n = len(arms)
    for i, a in enumerate(arms):
        if i < n - 1:
            prog += scr + [("PUSH", i), "EQ", "ISZERO", ("PUSHL", f"{pfx}n{i}"), "JUMPI"]
        prog += code[a["o"]]
        if i < n - 1:
            prog += [("LABEL", f"{pfx}n{i}")]
    return prog


def verdict_fn_name(k: int, bid=0) -> str:
    # unique per batch: a pool thread that outlives its test (run_test left by an exception) must never be
    # attributed to a test of a later batch run by the same process
    return f"check_b{bid}s{k}"


def verdict_contract(name: str, scns: list, bid=0) -> Contract:
    fns = []
    for k, s in enumerate(scns):
        opts = ["--solver-timeout-assertion", SOLVER_TIMEOUT if s.has_kind("timeout") else "0"]
        if s.early:
            opts.append("--early-exit")
        if s.cache:
            opts.append("--cache-solver")
        fns.append(Fn(f"{verdict_fn_name(k, bid)}(uint256,uint256)", verdict_body(s.arms, s.refinable, f"s{k}"), devdoc=" ".join(opts)))
    return Contract(name, fns, filename=f"test/{name}.t.sol")


def verdict_stub_script(scns: list, work: Path, tagdir: str, bid=0, free_seed: int | None = None) -> dict:
    import random

    rnd = random.Random(free_seed)
    replies = {}
    spawnfail = set()
    for k, s in enumerate(scns):
        fn = verdict_fn_name(k, bid)
        for p, a in enumerate(s.arms):
            if a["r"] == "none":
                continue
            for base, kind in ((f"{p}.smt2", a["r"]), (f"{p}.refined.smt2", a["r2"])):
                if kind == "none":
                    continue
                rep = {"kind": kind, "hold": True}
                if free_seed is not None:  # unforced run: no gate, no hold; small delays shake the completion order
                    rep = {"kind": kind, "hold": False, "delay_ms": rnd.choice([0, 0, 15, 40, 90])}
                if kind == "unsat_shared":
                    rep.update(kind="unsat", core="shared", shared_n=1)
                if kind == "unsat_nocore":
                    rep.update(kind="unsat", core="empty")
                if kind == "spawnfail":
                    rep["kind"] = "garbage"  # never reached: Popen raises for this query
                    spawnfail.add(f"{fn}/{base}")
                replies[f"{fn}/{base}"] = rep
    ctl = work / f"ctl-{tagdir}"
    ctl.mkdir(parents=True, exist_ok=True)
    scen = {
        "journal": str(work / f"journal-{tagdir}.jsonl"),
        "ctl": str(ctl),
        "default": {"kind": "garbage"},
        "hold_max_s": 150,
        "replies": replies,
        "spawnfail": sorted(spawnfail),
    }
    return scen


# ---------------------------------------------------------------------------------------------
# the scheduler: gates at the code sites


class VerdictSched:
    def __init__(self, fn: str, scn: VScn, scen: dict, enforce: bool = True):
        self.fn = fn
        self.scn = scn
        self.ev = list(scn.hist)
        self.k = 0
        self.cv = threading.Condition()
        self.obs: list = []  # events in the order they were completed
        self.outputs: list = []  # (p, r, v) seen by the callbacks, in order
        self.unexpected: list = []
        self.broken: str | None = None
        self.stopped = False
        self.enforce = enforce
        self.ctl = Path(scen["ctl"])
        self.journal = scen["journal"]
        self.npaths = 0
        self.shutdown_calls = 0
        self.handled: set = set()
        self.arm_checks: list = []
        self.t0 = 0.0
        self.wall = 0.0
        self.final_outputs: list | None = None  # FunctionContext.solver_outputs when run_test ended
        self.thread = threading.Thread(target=self._controller, name=f"verdict-ctl-{fn}", daemon=True)

    # -- gates
    def _remaining(self, e, p) -> bool:
        return any(a == e and b == p for a, b, _ in self.ev[self.k:])

    def enter(self, e: str, p: int) -> None:
        """Block until it is the turn of model action (e, p)."""
        if not self.enforce:
            return
        with self.cv:
            if self.stopped or self.broken:
                return
            deadline = time.time() + GATE_TIMEOUT_S
            if not self._remaining(e, p):
                # not an action of the modelled behaviour: it can only happen after the behaviour's end (the model
                # stops when run_test has returned or raised; pool threads may still be running then)
                self.unexpected.append((e, p))
                while not (self.stopped or self.broken) and self.k < len(self.ev) and time.time() < deadline:
                    self.cv.wait(0.25)
                return
            while not (self.stopped or self.broken):
                a, b, _ = self.ev[self.k] if self.k < len(self.ev) else (None, None, None)
                if (a, b) == (e, p):
                    return
                left = deadline - time.time()
                if left <= 0:
                    self.release_all()  # the run goes on unscheduled: no stub may stay held
                    self.broken = f"gate {e}{p} waited {GATE_TIMEOUT_S:.0f}s at position {self.k} ({self.ev[self.k] if self.k < len(self.ev) else 'end'})"
                    self.cv.notify_all()
                    return
                self.cv.wait(min(left, 0.25))

    def leave(self, e: str, p: int, x: str) -> None:
        with self.cv:
            self.obs.append((e, p, x))
            if self.k < len(self.ev) and (self.ev[self.k][0], self.ev[self.k][1]) == (e, p):
                self.k += 1
            self.cv.notify_all()

    # -- controller: the actions that are not taken by a halmos thread (solver processes finishing)
    def release(self, base: str) -> None:
        with contextlib.suppress(OSError):  # the control directory is removed when the batch has ended
            (self.ctl / f"{self.fn}.{base}.go").write_text("go")

    def release_all(self) -> None:
        with contextlib.suppress(OSError):
            (self.ctl / f"{self.fn}.all.go").write_text("go")

    def _journal_has_reply(self, base: str) -> bool:
        key = f"{self.fn}/{base}"
        try:
            with open(self.journal) as f:
                for line in f:
                    if '"reply"' in line and key in line:
                        try:
                            r = json.loads(line)
                        except json.JSONDecodeError:
                            continue  # a line that is being written: seen again at the next poll
                        if r.get("ev") == "reply" and r.get("q") == key:
                            return True
        except FileNotFoundError:
            pass
        return False

    def _controller(self) -> None:
        while True:
            with self.cv:
                while not self.stopped and not self.broken and not (
                    self.k < len(self.ev) and self.ev[self.k][0] in ("F", "F2", "SF") and self.k not in self.handled
                ):
                    self.cv.wait(0.1)
                if self.stopped or self.broken:
                    return
                kk = self.k
                self.handled.add(kk)
                e, p, x = self.ev[kk]
            base = f"{p}.refined.smt2" if e == "F2" else f"{p}.smt2"
            if e in ("F", "F2"):
                # the solver process whose end is scheduled was never started (e.g. the query was answered from the unsat
                # core cache although the model says it reaches the solver): give the schedule up at once
                started = [x2 for e2, p2, x2 in self.obs if e2 == ("B" if e == "F" else "R") and p2 == p]
                if started and started[-1] != "run":
                    with self.cv:
                        self.broken = f"the model schedules the end of the solver process for {self.fn}/{base}, but the code did not start one ({started[-1]})"
                        self.cv.notify_all()
                    self.release_all()
                    return
            natural = x in ("killed", "killed-raise", "timeout")  # ends by itself (killed by halmos / times out)
            if x != "timeout":
                # also for "killed": cancel() does nothing for a process that is not yet started (halmos' known
                # cancel-before-popen race); such a survivor must not keep thread_pool.shutdown(wait=True)
                # waiting for the hold to expire - its reply is discarded anyway (is_shutdown -> err)
                self.release(base)
            if e == "SF":
                continue  # the main thread reports the return of the confirmation query
            if not natural:
                # (with a real solver timeout configured a stub that has not answered by then has been killed by halmos)
                deadline = time.time() + (15.0 if self.scn.has_kind("timeout") else GATE_TIMEOUT_S)
                while not self._journal_has_reply(base):
                    if time.time() > deadline or self.stopped:
                        self.release_all()
                        with self.cv:
                            self.broken = self.broken or f"no reply of the stub for {self.fn}/{base} within {GATE_TIMEOUT_S:.0f}s"
                            self.cv.notify_all()
                        return
                    time.sleep(0.005)
            with self.cv:
                self.obs.append((e, p, x))
                if self.k == kk:
                    self.k += 1
                self.cv.notify_all()

    def start(self):
        if self.enforce:
            self.thread.start()

    def stop(self):
        with self.cv:
            self.stopped = True
            self.cv.notify_all()
        self.release_all()


_TL = threading.local()


class _State:
    scheds: dict = {}  # fn name -> VerdictSched
    exec_fn: dict = {}  # id(executor) -> fn name
    current: VerdictSched | None = None  # the test the main thread is running
    scen: dict = {}
    results: dict = {}  # fn -> ("ok", TestResult) | ("raised", text)
    popened: list = []  # "<fn>/<query file>" of every solver process started


def _sched_of_pathctx(path_ctx) -> VerdictSched | None:
    try:
        fn = os.path.basename(str(path_ctx.dump_file.parent))
    except Exception:  # noqa: BLE001
        return None
    return _State.scheds.get(fn)


def _pending_leave(x: str) -> None:
    cur = getattr(_TL, "cur", None)
    if cur:
        sc, e, p = cur
        _TL.cur = None
        sc.leave(e, p, x)


@contextlib.contextmanager
def verdict_instrumented():
    """Install the gates (wrappers of halmos functions / methods, substituted names); restore on exit."""
    H = hmain.CounterexampleHandler
    PE = hproc.PopenExecutor
    real = {
        "run_test": hmain.run_test,
        "m_sete": hmain.solve_end_to_end,
        "m_sll": hmain.solve_low_level,
        "s_sll": hsolve.solve_low_level,
        "hav": H.handle_assertion_violation,
        "gso": H._get_solver_output,
        "cb": H._solve_end_to_end_callback,
        "is_shutdown": PE.is_shutdown,
        "shutdown": PE.shutdown,
        "submit": PE.submit,
        "popen": hproc.Popen,
    }
    main_thread = threading.current_thread()

    def w_run_test(ctx):
        fn = ctx.info.name
        sc = _State.scheds.get(fn)
        if sc is None:
            return real["run_test"](ctx)
        _State.exec_fn[id(ctx.solving_ctx.executor)] = fn
        _State.current = sc
        _TL.sll_raised = False
        sc.start()
        sc.t0 = time.time()
        try:
            r = real["run_test"](ctx)
            _State.results[fn] = ("ok", r)
            return r
        except BaseException as e:  # noqa: BLE001
            _State.results[fn] = ("raised", f"{type(e).__name__}: {e}")
            raise
        finally:
            sc.wall = time.time() - sc.t0
            with contextlib.suppress(Exception):
                sc.final_outputs = [(so.path_id, str(so.result), bool(so.model.is_valid) if so.model is not None else False)
                                    for so in list(ctx.solver_outputs)]
            _State.current = None
            sc.stop()

    def w_is_shutdown(self):
        sc = _State.current
        # (a done-callback added to a future that has already finished runs in the adding thread: the is_shutdown() of
        # _get_solver_output may then be called by the main thread - that is not the loop head)
        in_callback = getattr(_TL, "cb_sched", None) is not None
        if getattr(_TL, "sll_raised", False):
            # the `except Exception: if not executor.is_shutdown(): raise` around the confirmation query (since e7511fd)
            _TL.sll_raised = False
            return real["is_shutdown"](self)
        if sc is not None and not in_callback and threading.current_thread() is main_thread and _State.exec_fn.get(id(self)) == sc.fn:
            p = sc.npaths
            sc.npaths += 1
            sc.enter("E", p)
            r = real["is_shutdown"](self)
            sc.leave("E", p, "break" if r else "go")
            return r
        return real["is_shutdown"](self)

    def w_hav(self, path_id, ex, panic_found, description=None):
        sc = _State.scheds.get(self.ctx.info.name)
        if sc is None:
            return real["hav"](self, path_id, ex, panic_found, description)
        sc.arm_checks.append((path_id, "panic" if panic_found else "failflag"))
        sc.enter("S", path_id)
        try:
            return real["hav"](self, path_id, ex, panic_found, description)
        finally:
            sc.leave("S", path_id, "queued")

    def w_main_sll(path_ctx):
        sc = _sched_of_pathctx(path_ctx)
        if sc is None or threading.current_thread() is not main_thread:
            return real["m_sll"](path_ctx)
        p = path_ctx.path_id
        sc.arm_checks.append((p, "stuck"))
        sc.enter("K", p)
        _TL.cur = (sc, "K", p)
        _TL.sll_raised = False
        try:
            out = real["m_sll"](path_ctx)
        except BaseException as e:  # noqa: BLE001
            _TL.sll_raised = True
            if getattr(_TL, "cur", None):
                _pending_leave(f"raise:{type(e).__name__}")  # raised before submit
            elif ("K", p, "run") in sc.obs:
                sc.leave("SF", p, f"raise:{type(e).__name__}")  # the started confirmation query raised
            raise
        sc.leave("SF", p, str(out.result))
        return out

    def w_main_sete(path_ctx):
        sc = _sched_of_pathctx(path_ctx)
        if sc is None:
            return real["m_sete"](path_ctx)
        p = path_ctx.path_id
        sc.enter("B", p)
        _TL.cur = (sc, "B", p)
        try:
            return real["m_sete"](path_ctx)
        finally:
            _pending_leave("cachehit")  # solve_end_to_end came back without submitting anything

    def w_solve_sll(path_ctx):
        sc = _sched_of_pathctx(path_ctx)
        if sc is not None and path_ctx.is_refined and threading.current_thread() is not main_thread:
            p = path_ctx.path_id
            sc.enter("R", p)
            _TL.cur = (sc, "R", p)
            try:
                return real["s_sll"](path_ctx)
            finally:
                _pending_leave("nosubmit")
        return real["s_sll"](path_ctx)

    def w_submit(self, future):
        cur = getattr(_TL, "cur", None)
        outcome = "run"
        try:
            return real["submit"](self, future)
        except hproc.ShutdownError:
            outcome = "shutdown"
            raise
        finally:
            if cur:
                sc = cur[0]
                key = f"{sc.fn}/{os.path.basename(future.cmd[-1])}"
                if outcome == "run" and key in _State.scen.get("spawnfail", ()):
                    outcome = "spawnfail"
                _pending_leave(outcome)

    def w_popen(cmd, *a, **k):
        try:
            key = f"{os.path.basename(os.path.dirname(cmd[-1]))}/{os.path.basename(cmd[-1])}"
        except Exception:  # noqa: BLE001
            key = None
        if key in _State.scen.get("spawnfail", ()):
            raise OSError(errno.EAGAIN, "Resource temporarily unavailable (scripted spawn failure)")
        _State.popened.append(key)
        return real["popen"](cmd, *a, **k)

    def w_gso(self, future, path_ctx):
        out = real["gso"](self, future, path_ctx)
        _TL.last_output = out
        return out

    def w_cb(self, future, ex, path_ctx, description):
        sc = _State.scheds.get(self.ctx.info.name)
        if sc is None:
            return real["cb"](self, future, ex, path_ctx, description)
        p = path_ctx.path_id
        sc.enter("C", p)
        _TL.cur = (sc, "C", p)
        _TL.last_output = None
        _TL.cb_sched = sc
        try:
            return real["cb"](self, future, ex, path_ctx, description)
        finally:
            _TL.cb_sched = None
            _cb_done()

    def _cb_done():
        cur = getattr(_TL, "cur", None)
        if cur and cur[1] == "C":
            sc = cur[0]
            out = getattr(_TL, "last_output", None)
            r = str(out.result) if out is not None else "?"
            v = bool(out.model.is_valid) if out is not None and out.model is not None else False
            with sc.cv:
                sc.outputs.append((cur[2], r, v))
            _pending_leave(r)

    def w_shutdown(self, wait=True, cancel_futures=False):
        sc = getattr(_TL, "cb_sched", None)
        if sc is None or _State.exec_fn.get(id(self)) != sc.fn:
            return real["shutdown"](self, wait=wait, cancel_futures=cancel_futures)
        cur = getattr(_TL, "cur", None)
        p = cur[2] if cur else -1
        _cb_done()  # the output has been appended: the Callback action is complete
        sc.enter("X", p)
        sc.shutdown_calls += 1
        try:
            return real["shutdown"](self, wait=wait, cancel_futures=cancel_futures)
        finally:
            sc.leave("X", p, "shutdown" if not wait else "shutdown-wait")

    hmain.run_test = w_run_test
    hmain.solve_end_to_end = w_main_sete
    hmain.solve_low_level = w_main_sll
    hsolve.solve_low_level = w_solve_sll
    H.handle_assertion_violation = w_hav
    H._get_solver_output = w_gso
    H._solve_end_to_end_callback = w_cb
    PE.is_shutdown = w_is_shutdown
    PE.shutdown = w_shutdown
    PE.submit = w_submit
    hproc.Popen = w_popen
    try:
        yield
    finally:
        hmain.run_test = real["run_test"]
        hmain.solve_end_to_end = real["m_sete"]
        hmain.solve_low_level = real["m_sll"]
        hsolve.solve_low_level = real["s_sll"]
        H.handle_assertion_violation = real["hav"]
        H._get_solver_output = real["gso"]
        H._solve_end_to_end_callback = real["cb"]
        PE.is_shutdown = real["is_shutdown"]
        PE.shutdown = real["shutdown"]
        PE.submit = real["submit"]
        hproc.Popen = real["popen"]


# ---------------------------------------------------------------------------------------------
# running a batch


class _NoForge:
    """Stands for the `subprocess` module inside halmos.__main__: there is no forge; artifacts are in <root>/out."""

    @staticmethod
    def run(cmd, *a, **k):
        if list(cmd[:2]) != ["forge", "build"]:
            raise MachineryError(f"unexpected subprocess started by halmos._main: {cmd}")
        return types.SimpleNamespace(returncode=0)


def verdict_mutated_run_test(kind: str):
    """halmos' run_test with one of the two repaired behaviours put back (compiled from its source inside halmos.__main__'s
    namespace, in this process only): "old-precedence" tests `unknown` before `stuck` in the verdict table,
    "no-catch" lets the ShutdownError of the confirmation query of a stuck path escape."""
    import inspect
    import textwrap

    src = textwrap.dedent(inspect.getsource(hmain.run_test))
    if kind == "old-precedence":
        a = src.index('    elif len(stuck) > 0:')
        b = src.index('    elif counter["unknown"] > 0:')
        c = src.index('    elif normal == 0:')
        if not a < b < c:
            raise MachineryError("run_test's verdict table does not have the expected shape (stuck, unknown, normal)")
        new = src[:a] + src[b:c] + src[a:b] + src[c:]
    elif kind == "no-catch":
        old = "            except Exception:\n                # early exit was triggered while this path was being confirmed"
        if old not in src:
            raise MachineryError("run_test does not catch the exceptions of the confirmation query as expected")
        new = src.replace(old, "            except ZeroDivisionError:\n                # (mutant: nothing caught)", 1)
    else:
        raise MachineryError(f"unknown run_test mutation {kind}")
    new = new.replace("def run_test(", "def run_test__verdict_mutant(", 1)
    exec(compile(new, f"<run_test mutant {kind}>", "exec"), hmain.__dict__)  # noqa: S102
    return hmain.__dict__.pop("run_test__verdict_mutant")


def verdict_read_journal(path: str) -> list:
    out = []
    try:
        with open(path) as f:
            for line in f:
                line = line.strip()
                if line:
                    with contextlib.suppress(json.JSONDecodeError):
                        out.append(json.loads(line))
    except FileNotFoundError:
        pass
    return out


def verdict_wait_callbacks(scheds: list, timeout: float = 20.0) -> None:
    """Pool threads of a test that run_test left by an exception keep running (nothing joins them): wait until
    every submitted query has been through its callback (the stubs have been released)."""
    deadline = time.time() + timeout
    for sc in scheds:
        while time.time() < deadline:
            with sc.cv:
                submitted = sum(1 for e, _, _ in sc.obs if e == "S")
                done = len(sc.outputs)
            if done >= submitted:
                break
            time.sleep(0.01)


def verdict_run_batch(job: dict) -> dict:
    """job: {"id", "work", "scns": [record dicts], "mode": "run_contract" | "main", "enforce": bool, "wrapper_mutation": str|None}
    Returns {"obs": [per scenario observation], "main_exit": int|None, "stdout": tail}."""
    bid = job["id"]
    work = Path(job["work"])
    scns = [verdict_from_record(r, r.get("tag", "")) if isinstance(r, dict) else r for r in job["scns"]]
    enforce = job.get("enforce", True)
    mode = job.get("mode", "run_contract")
    name = f"V{bid}"
    contract = verdict_contract(name, scns, bid)
    if job.get("ctor_revert"):
        contract.ctor = revert_plain()  # deployment fails: run_contract returns no result for the selected tests
    scen = verdict_stub_script(scns, work, name, bid, None if enforce else 7 * bid + 1)
    with contextlib.suppress(FileNotFoundError):
        os.remove(scen["journal"])
    scen_file = work / f"scen-{name}.json"
    scen_file.write_text(json.dumps(scen))
    dump = work / f"dump-{name}"
    solver_cmd = f"{PYTHON} -S -E {STUB} {scen_file}"
    cli = ["--solver-command", solver_cmd, "--solver-threads", str(job.get("threads", 4)), "--dump-smt-directory", str(dump), "--no-status"]
    _State.scheds = {verdict_fn_name(k, bid): VerdictSched(verdict_fn_name(k, bid), s, scen, enforce) for k, s in enumerate(scns)}
    _State.exec_fn = {}
    _State.scen = scen
    _State.results = {}
    _State.popened = []
    _State.current = None
    main_exit = None
    out = io.StringIO()
    results = []
    exc = None
    mut = job.get("wrapper_mutation")
    real_from_result = hsolve.SolverOutput.from_result
    if mut == "unknown-as-unsat":
        # negative control: a deliberately wrong wrapper of the halmos function that maps solver replies

        def bad_from_result(stdout, stderr, returncode, path_ctx):
            if stdout.startswith("unknown"):
                stdout = "unsat\n"
            return real_from_result(stdout, stderr, returncode, path_ctx)

        hsolve.SolverOutput.from_result = staticmethod(bad_from_result)
    real_run_test = hmain.run_test
    if mut in ("old-precedence", "no-catch"):
        hmain.run_test = verdict_mutated_run_test(mut)  # picked up as the "real" function by verdict_instrumented
    handlers = {sig: signal.getsignal(sig) for sig in (signal.SIGINT, signal.SIGTERM)}
    t0 = time.time()
    logs = ""
    try:
        with verdict_instrumented(), captured_logs() as logbuf, contextlib.redirect_stdout(out):
            try:
                if mode == "main":
                    root = work / f"root-{name}"
                    od = root / "out" / f"{name}.t.sol"
                    od.mkdir(parents=True, exist_ok=True)
                    (od / f"{name}.json").write_text(json.dumps(contract.json()))
                    real_sub = hmain.subprocess
                    hmain.subprocess = _NoForge
                    try:
                        mr = hmain._main(["--root", str(root)] + cli)
                    finally:
                        hmain.subprocess = real_sub
                    main_exit = mr.exitcode
                    for v in (mr.test_results or {}).values():
                        results += v
                else:
                    args = mk_args(*cli)
                    funsigs = [f.sig for f in contract.fns]
                    ctx = mk_context(contract, [], funsigs, args)
                    results = hmain.run_contract(ctx)
            except SystemExit as e:
                exc = f"SystemExit: {e.code}"
            except BaseException as e:  # noqa: BLE001
                exc = f"{type(e).__name__}: {e}"
            for sc in _State.scheds.values():
                sc.stop()
            verdict_wait_callbacks([sc for sc in _State.scheds.values() if _State.results.get(sc.fn, ("", ""))[0] == "raised"])
            logs = logbuf.getvalue()
    finally:
        if mut:
            hsolve.SolverOutput.from_result = staticmethod(real_from_result)
        hmain.run_test = real_run_test
        for sig, h in handlers.items():
            with contextlib.suppress(Exception):
                signal.signal(sig, h)
        for sc in _State.scheds.values():
            sc.stop()
    journal = verdict_read_journal(scen["journal"])
    by_sig = {r.name.split("(")[0]: r for r in results}
    obs = []
    for k, s in enumerate(scns):
        fn = verdict_fn_name(k, bid)
        sc = _State.scheds[fn]
        r = by_sig.get(fn)
        calls = sorted({q.split("/", 1)[1] for q in _State.popened if q.startswith(fn + "/")})
        replied = sorted({j["q"].split("/", 1)[1] for j in journal if j.get("ev") == "reply" and j["q"].startswith(fn + "/")})
        obs.append({
            "fn": fn,
            "exitcode": r.exitcode if r is not None else None,
            "num_paths": list(r.num_paths) if r is not None and r.num_paths else None,
            "num_models": r.num_models if r is not None else None,
            "models_valid": [bool(m.is_valid) for m in (r.models or [])] if r is not None else None,
            "run_test": _State.results.get(fn, ("missing", ""))[0],
            "run_test_exc": _State.results.get(fn, ("", ""))[1] if _State.results.get(fn, ("", ""))[0] == "raised" else None,
            "events": [list(e) for e in sc.obs],
            "outputs": [list(o) for o in sc.outputs],
            "unexpected": [list(e) for e in sc.unexpected],
            "broken": sc.broken,
            "shutdown_calls": sc.shutdown_calls,
            "arm_checks": sc.arm_checks,
            "calls": calls,
            "replied": replied,
            "enforced": enforce,
            "wall": round(sc.wall, 2),
            "final_outputs": [list(x) for x in sc.final_outputs] if sc.final_outputs is not None else None,
        })
    # clean up what this batch created (query dumps incl. <fn>-error / <fn>-timeout copies, control files)
    shutil.rmtree(dump, ignore_errors=True)
    shutil.rmtree(scen["ctl"], ignore_errors=True)
    if mode == "main":
        shutil.rmtree(work / f"root-{name}", ignore_errors=True)
    return {"id": bid, "obs": obs, "main_exit": main_exit, "exception": exc, "stdout": out.getvalue()[-1500:], "logs": logs[-1500:],
            "wall": time.time() - t0}


# ---------------------------------------------------------------------------------------------
# comparison of one observation with the model's record


def verdict_expected_calls(s: VScn) -> set:
    calls = set()
    for e, p, x in s.hist:
        if e in ("B", "K") and x == "run":
            calls.add(f"{p}.smt2")
        if e == "R" and x == "run":
            calls.add(f"{p}.refined.smt2")
    return calls


def verdict_survivor_resolves(events: list) -> set:
    """Paths whose first solver process was scheduled as killed by the early-exit shutdown.  cancel() is a no-op for a
    process that is not started yet (halmos' known cancel-before-popen race, property C17): such a survivor answers (the
    harness releases it), an abstract model is refined, and the re-submission is refused - one extra event
    (R, p, shutdown) with the same err output.  It is not forced and not part of the model: tolerated."""
    return {p for e, p, x in events if e == "F" and x == "killed"}


def verdict_project(events: list, survivors: set = frozenset()) -> list:
    """The events a halmos thread takes (solver-process ends are driven by the harness)."""
    out = []
    for e, p, x in events:
        if e in ("F", "F2"):
            continue
        if e == "R" and x == "shutdown" and p in survivors:
            continue
        if e == "SF":
            x = "-"
        out.append((e, p, x))
    return out


def verdict_compare(s: VScn, o: dict, mutate: str | None = None) -> list:
    """Returns [(kind, text)]: kind "machinery" (replay not conclusive), "conformance" (the model of what
    happens differs from the code), "property" (the observed verdict is not the required one)."""
    issues = []
    if o["exitcode"] is None:
        return [("machinery", f"no TestResult for {o['fn']}")]
    if o["broken"]:
        # the run went on unscheduled: what it showed is still a real behaviour of halmos for this assignment.  Without a
        # wall-clock solver timeout in play its verdict must be the required one (a violation is reported, not hidden)
        code = o["exitcode"]
        if mutate is None and not s.has_kind("timeout") and CLASS_OF[code] not in verdict_acceptable(s.arms):
            return [("property", f"verdict {CLASS_OF[code]} (exit code {code}), required {verdict_required(s.arms)} "
                                 f"[the run left the model's schedule: {o['broken']}]"),
                    ("conformance", f"schedule not enforced: {o['broken']}")]
        return [("machinery", f"schedule not enforced: {o['broken']}")]
    # arms are explored in order
    exp_arms = [(p, a["o"]) for p, a in enumerate(s.arms) if a["o"] in VIOL + ("stuck",)]
    seen = [tuple(x) for x in o["arm_checks"]]
    if any(x not in exp_arms for x in seen):
        return [("machinery", f"path ids do not follow the arm order: saw {seen}, arms {exp_arms}")]
    if s.has_kind("timeout"):
        # sequential schedule with a real --solver-timeout-assertion: a stub that was started but was slower than
        # the timeout (machine load) makes the run inconclusive
        kinds = {}
        for p, a in enumerate(s.arms):
            kinds[f"{p}.smt2"], kinds[f"{p}.refined.smt2"] = a["r"], a["r2"]
        late = [q for q in o["calls"] if kinds.get(q) not in ("timeout", "spawnfail", "none", None) and q not in o["replied"]]
        if late:
            return [("machinery", f"stub for {late} did not answer within the solver timeout (load)")]
        # ... or answered just too late: an `unknown` that the scripted replies do not explain
        n_model = sum(1 for _, r, _ in s.outputs if r == "unknown")
        n_obs = sum(1 for _, r, _ in (tuple(x) for x in o["outputs"]) if r == "unknown")
        sf_spurious = any(e == "SF" and x == "unknown" and s.arms[p]["r"] not in ("unknown", "timeout")
                          for e, p, x in (tuple(x) for x in o["events"]) if 0 <= p < len(s.arms))
        if n_obs > n_model or sf_spurious:
            return [("machinery", "a solver reply arrived after the configured solver timeout (load): unexplained `unknown`")]
    code = o["exitcode"]
    # a confirmation query cancelled in flight ends with an err output (path kept, loop goes on) or with an exception
    # (loop left): which one is not forced, so only the exit code - the same in both cases - is compared
    lenient = s.killed_stuck()
    model_codes = {s.code}
    if code not in model_codes:
        issues.append(("conformance", f"exit code {code}, the model says {sorted(model_codes)}"))
    if not lenient:
        if [tuple(x) for x in o["outputs"]] != [tuple(x) for x in s.outputs] and not s.raised:
            issues.append(("conformance", f"solver outputs {o['outputs']}, the model says {s.outputs}"))
        surv = verdict_survivor_resolves(s.hist)
        if o["enforced"] and verdict_project([tuple(e) for e in o["events"]], surv) != verdict_project(s.hist, surv) and not s.raised:
            issues.append(("conformance", f"events {o['events']}, the model says {s.hist}"))
        if [u for u in o["unexpected"] if not (u[0] == "R" and u[1] in surv)] and not s.raised:
            issues.append(("conformance", f"code sites reached that the model does not schedule: {o['unexpected']}"))
        if set(o["calls"]) != verdict_expected_calls(s) and not s.raised:
            issues.append(("conformance", f"solver invoked for {o['calls']}, the model says {sorted(verdict_expected_calls(s))}"))
        if (o["run_test"] == "raised") != s.raised:
            issues.append(("conformance", f"run_test {o['run_test']} ({o['run_test_exc']}), the model says raised={s.raised}"))
        if not s.raised and o["num_paths"] is not None:
            if o["num_paths"][1] != s.normal or o["num_paths"][2] != len(s.stuck):
                issues.append(("conformance", f"(paths, success, blocked) = {o['num_paths']}, the model says success={s.normal} blocked={len(s.stuck)}"))
        if o["shutdown_calls"] != (1 if s.shutdown else 0) and not (s.raised or s.shutdown_pending()):
            issues.append(("conformance", f"{o['shutdown_calls']} early-exit shutdown calls, the model says shutdown={s.shutdown}"))
        if o["models_valid"] is not None and not s.raised:
            exp_valid = sorted(v for _, r, v in s.outputs if r == "sat")
            if sorted(o["models_valid"]) != exp_valid:
                issues.append(("conformance", f"model validity flags {o['models_valid']}, the model says {exp_valid}"))
    if mutate is None:
        issues += verdict_direct(s, o)
    # the property
    req = verdict_required(s.arms, mutate)
    acc = verdict_acceptable(s.arms) if mutate is None else {req}
    if mutate is None and (req != s.required or sorted(acc) != sorted(s.acceptable)):
        issues.append(("machinery", f"Required differs between Verdict.tla ({s.required}, {s.acceptable}) and the harness ({req}, {sorted(acc)})"))
    if CLASS_OF[code] not in acc:
        issues.append(("property", f"verdict {CLASS_OF[code]} (exit code {code}), required {req}"))
    return issues


def verdict_trace_record(s: VScn, o: dict) -> dict | None:
    """One trace for spec/Trace_Verdict.tla: per-thread event sequences (program order), the final order of
    solver_outputs, the exit code."""
    if o["exitcode"] is None or o["broken"] or o["final_outputs"] is None:
        return None
    surv = verdict_survivor_resolves(s.hist)
    evs = [tuple(e) for e in o["events"] if not (e[0] == "R" and e[2] == "shutdown" and e[1] in surv and ("R", e[1], "shutdown") not in s.hist)]
    main = [{"e": e, "p": p, "x": x} for e, p, x in evs if e in ("E", "S", "K", "SF")]
    workers = [[{"e": e, "p": p, "x": x} for e, p, x in evs if e in ("B", "R", "C", "X") and p == q] for q in range(len(s.arms))]
    return {
        "arms": s.arms,
        "fl": {"early": s.early, "cache": s.cache, "refinable": s.refinable},
        "main": main,
        "workers": workers,
        "outputs": [{"p": p, "r": r, "v": bool(v)} for p, r, v in o["final_outputs"]],
        "code": o["exitcode"],
        "raised": o["run_test"] == "raised",
    }


def verdict_code_of(nsat: int, nerr: int, nunk: int, nstuck: int, nnormal: int) -> int:
    """The documented table of run_test (Verdict!CodeOf)."""
    if nsat:
        return 1
    if nerr:
        return 5
    if nstuck:  # since /repo 78a52f5: a stuck path (ERROR) before a timeout
        return 3
    if nunk:
        return 2
    if nnormal == 0:
        return 4
    return 0


def verdict_direct(s: VScn, o: dict) -> list:
    """Invariants of Verdict.tla evaluated directly on what one real run showed (forced schedule or not):
    one output per submitted query; TestResult.exitcode = CodeOf(outputs, stuck, normal); a model is marked
    valid only if the solver's final reply interprets no abstraction; shutdown only after a valid model."""
    issues = []
    if o["exitcode"] is None or o["broken"]:
        return issues
    outs = [tuple(x) for x in o["outputs"]]
    if o["run_test"] == "ok" and o["num_paths"] is not None:
        submitted = [p for e, p, _ in (tuple(x) for x in o["events"]) if e == "S"]
        if sorted(p for p, _, _ in outs) != sorted(submitted):
            issues.append(("conformance", f"OneOutputPerQuery: submitted {sorted(submitted)}, outputs for {sorted(p for p, _, _ in outs)}"))
        cnt = {r: sum(1 for _, x, _ in outs if x == r) for r in ("sat", "err", "unknown")}
        want = verdict_code_of(cnt["sat"], cnt["err"], cnt["unknown"], o["num_paths"][2], o["num_paths"][1])
        if want != o["exitcode"]:
            issues.append(("conformance", f"Aggregate: exit code {o['exitcode']}, the table gives {want} for outputs {outs}, (paths, success, blocked) = {o['num_paths']}"))
    for p, r, v in outs:
        if r == "sat" and v and 0 <= p < len(s.arms):
            a = s.arms[p]
            if not (a["r"] == "sat_valid" or (a["r"] == "sat_abstract" and a["r2"] == "sat_valid")):
                issues.append(("property", f"ValidNeverAbstract: the model of path {p} is marked valid, the solver's replies were {a['r']}/{a['r2']}"))
    if o["shutdown_calls"] and not (s.early and any(r == "sat" and v for _, r, v in outs)):
        issues.append(("conformance", f"ShutdownOnlyAfterValid: {o['shutdown_calls']} shutdown calls, early={s.early}, outputs {outs}"))
    return issues


def verdict_compare_free(s: VScn, o: dict) -> list:
    """An unforced run (no gates, free-running stubs): the order is whatever the machine did.  Without --early-exit
    the model says the exit code does not depend on the order (OrderIndependenceNoEarly): it must be the
    sequential one.  With --early-exit the order-dependent cases are only counted (the order was not forced)."""
    if o["exitcode"] is None:
        return [("machinery", f"no TestResult for {o['fn']}")]
    issues = verdict_direct(s, o)
    code = o["exitcode"]
    if not s.early:
        if code != s.seqcode:
            issues.append(("conformance", f"unforced run: exit code {code}, every schedule of the model gives {s.seqcode}"))
        if CLASS_OF[code] not in verdict_acceptable(s.arms):
            issues.append(("property", f"verdict {CLASS_OF[code]} (exit code {code}), required {verdict_required(s.arms)}"))
    elif code not in (s.seqcode, 1, 5):
        issues.append(("conformance", f"unforced run with --early-exit: exit code {code}, the model allows {sorted({s.seqcode, 1, 5})}"))
    return issues


def _shutdown_pending(self) -> bool:
    """A valid model was output under --early-exit, but the model's behaviour ended (run_test left by an
    exception) before the EarlyExit step."""
    return self.early and any(r == "sat" and v for _, r, v in self.outputs)


VScn.shutdown_pending = _shutdown_pending


def verdict_finding_key(s: VScn, code: int) -> str:
    """Stable key of a disagreement with the property: the deviation class and the minimal assignment."""
    req = verdict_required(s.arms)
    qc = [verdict_qclass(a) for a in s.arms if a["o"] in VIOL]
    kept = [a for a in s.arms if a["o"] == "stuck" and a["r"] not in UNSAT_KINDS]
    if code == 2 and req == "ERROR" and kept and "fail" not in qc:
        return "precedence:timeout-over-stuck"
    if code == 5 and req == "FAIL" and s.early and any(a["o"] == "stuck" for a in s.arms):
        return "early-exit-order-dependent:stuck-confirm-raises"
    return f"verdict:{s.key()}:{CLASS_OF[code]}-not-{req}"
