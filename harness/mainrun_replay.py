"""Replay of MainRun.tla terminal states through halmos' own `_main` (one process, several contracts).

The contracts of the model's Shapes are hand-assembled; their artifacts are written where `forge build` would put
them (<root>/out/<File>.sol/<Name>.json) and `_main(argv)` runs with `subprocess` replaced by a no-op forge.  Compared
with the model: the process exit code, which contracts produced results, the functions run (in order) and their
verdicts, and the number of `--depth` warnings (one per cut test, whatever ran before it in the process).
"""

from __future__ import annotations

import contextlib
import io
import json
import shutil
import signal
import types
from pathlib import Path

from .artifacts import Contract, Fn, arg, captured_logs, hmain, panic, revert_plain
from .common import MachineryError

DEPTH = 150  # check_deep: the short path ends long before, the long one runs > 400 steps


def contracts() -> dict:
    long_tail = [("PUSH", 0), "POP"] * 220 + ["STOP"]
    # (--depth is a budget of steps for the whole exploration of a test: the short path comes first)
    deep = arg(0) + [("PUSH", 1), "AND", ("PUSHL", "long"), "JUMPI", "STOP", ("LABEL", "long")] + long_tail

    def mk(name, setup, fns):
        return Contract(name, [Fn("setUp()", setup)] + fns, filename=f"test/{name}.t.sol")

    return {
        "A": mk("A", ["STOP"], [Fn("check_deep(uint256)", deep), Fn("check_f()", panic(1)), Fn("check_p()", ["STOP"]), Fn("test_x()", ["STOP"])]),
        "B": mk("B", ["STOP"], [Fn("check_deep(uint256)", deep), Fn("check_p()", ["STOP"]), Fn("check_q()", ["STOP"])]),
        "C": mk("C", revert_plain(), [Fn("check_p()", ["STOP"])]),
        "D": mk("D", ["STOP"], [Fn("helper()", ["STOP"])]),
    }


V_E, V_F = "0.8.26+commit.verif", "0.8.27+commit.verif"  # E, A-D and F: two compilation units; F's sorts last


def unit_contracts(name: str):
    """(test contract, its `Tgt`, compiler version) of the unit of E resp. F: the invariant is `tgt.flag() == 0`; E's Tgt
    has nop() only, F's has poke() { flag = 1 }."""
    from .artifacts import selector

    flag = Fn("flag()", [("PUSH", 0), "SLOAD", ("PUSH", 0), "MSTORE", ("PUSH", 32), ("PUSH", 0), "RETURN"], mutability="view")
    mut = Fn("nop()", ["STOP"]) if name == "E" else Fn("poke()", [("PUSH", 1), ("PUSH", 0), "SSTORE", "STOP"])
    tgt = Contract("Tgt", [mut, flag], filename="src/Tgt.sol")
    tinit = tgt.creation()
    setup = [("PUSHN", 2, len(tinit)), ("PUSHL", "tinit"), ("PUSH", 0x100), "CODECOPY", ("PUSHN", 2, len(tinit)), ("PUSH", 0x100), ("PUSH", 0), "CREATE",
             ("PUSH", 0), "SSTORE", "STOP"]
    inv = [("PUSHN", 32, int(selector("flag()"), 16) << 224), ("PUSH", 0), "MSTORE",
           ("PUSH", 32), ("PUSH", 0x40), ("PUSH", 4), ("PUSH", 0), ("PUSH", 0), ("PUSH", 0), "SLOAD", ("PUSH", 0xFFFFFF), "CALL", "POP",
           ("PUSH", 0x40), "MLOAD", ("PUSHL", "bad"), "JUMPI", "STOP", ("LABEL", "bad")] + panic(1)
    test = Contract(name, [Fn("setUp()", setup), Fn("invariant_flag()", inv)], filename=f"test/{name}.t.sol", data=[("MARK", "tinit"), ("RAW", tinit)])
    return test, tgt, (V_E if name == "E" else V_F)


class _NoForge:
    @staticmethod
    def run(cmd, *a, **k):
        if list(cmd[:2]) != ["forge", "build"]:
            raise MachineryError(f"unexpected subprocess started by halmos._main: {cmd}")
        return types.SimpleNamespace(returncode=0)


def run_main(root: Path, project: list[str], argv: list[str]):
    if root.exists():
        shutil.rmtree(root)
    cs = contracts()
    for name in project:
        d = root / "out" / f"{name}.t.sol"
        d.mkdir(parents=True, exist_ok=True)
        if name in ("E", "F"):
            test, tgt, ver = unit_contracts(name)
            short = ver.split("+")[0]
            for c, path in ((test, d / f"{name}.{short}.json"), (tgt, root / "out" / "Tgt.sol" / f"Tgt.{short}.json")):
                j = c.json()
                j["metadata"]["compiler"]["version"] = ver
                path.parent.mkdir(parents=True, exist_ok=True)
                path.write_text(json.dumps(j))
            continue
        (d / f"{name}.json").write_text(json.dumps(cs[name].json()))
    (root / "out").mkdir(parents=True, exist_ok=True)
    handlers = {sig: signal.getsignal(sig) for sig in (signal.SIGINT, signal.SIGTERM)}
    real_subprocess = hmain.subprocess
    hmain.subprocess = _NoForge
    sink = io.StringIO()
    try:
        with captured_logs() as buf, contextlib.redirect_stdout(sink):
            try:
                result = hmain._main(["--root", str(root), "--no-status"] + list(argv))
            except SystemExit as e:
                raise MachineryError(f"halmos._main{argv} exited with {e.code}: {sink.getvalue()[-800:]}") from e
            except Exception as e:  # noqa: BLE001 - an exception out of _main is an observation (the run has no exit code)
                result = types.SimpleNamespace(exitcode=f"{type(e).__name__}: {e}", test_results={})
    finally:
        hmain.subprocess = real_subprocess
        for sig, h in handlers.items():
            with contextlib.suppress(Exception):
                signal.signal(sig, h)
    return result, sink.getvalue(), buf.getvalue()


def replay(rec: dict, root: Path) -> list[tuple[str, str]]:
    """Disagreements (clause, text) between one MainRun.tla terminal state and the real run; clauses: exit, selection,
    order, verdicts, warnings."""
    project = sorted(rec["project"])
    argv = list(rec["argv"]) + (["--depth", str(DEPTH)] if rec["depth"] else [])
    result, stdout, logs = run_main(root, project, argv)
    out = []
    if not isinstance(result.exitcode, int):
        out.append(("verdicts", f"_main raised {result.exitcode}"))
        out.append(("exit", f"_main raised {result.exitcode}, specification: exit code {rec['exitcode']}"))
    elif result.exitcode != rec["exitcode"]:
        out.append(("exit", f"exit code {result.exitcode}, specification {rec['exitcode']}"))
    want = rec["results"] if isinstance(rec["results"], dict) else {}
    got = {}
    for path, trs in (result.test_results or {}).items():
        got[path.split(":")[-1]] = [(t.name.split("(")[0], t.exitcode) for t in trs]
    if set(got) != set(want):
        out.append(("selection", f"contracts with results {sorted(got)}, specification {sorted(want)}"))
    if list(got) != sorted(got):
        out.append(("order", f"contracts did not run in the order of their names: {list(got)}"))
    nwarn_want = 0
    for c, lst in want.items():
        w = [(t["n"], 0 if t["verdict"] == "PASS" else 1) for t in lst]
        nwarn_want += sum(1 for t in lst if t["warned"])
        g = [(n, 0 if e == 0 else 1) for n, e in got.get(c, [])]
        if c in got and g != w:
            out.append(("verdicts", f"contract {c}: functions and verdicts {got[c]}, specification {w}"))
    nwarn = sum(1 for line in logs.splitlines() if "incomplete execution due to the specified limit" in line)
    if nwarn != nwarn_want:
        out.append(("warnings", f"{nwarn} `--depth` warnings, specification {nwarn_want} (one per cut test)"))
    if out:
        out.append(("output", "halmos output: " + (stdout + logs)[-600:].replace("\n", " | ")))
    return out


def phase(chk, tier: str, clauses: set, label: str) -> None:
    """Model check MainRun.tla, refute its design mutations, replay every terminal state through _main; disagreements in
    the given clauses are violations of the calling check's property (the other clauses belong to another property's
    check, which runs this phase as well)."""
    import random

    from .common import cleanup, run_tlc, workdir

    work = workdir(f"mainrun-{chk.pid}")
    try:
        r = run_tlc("MainRun", "MC_MainRun_all.cfg", work=work, coverage=True, expect_violation=True)
        if not r.ok:
            raise MachineryError(f"MainRun.tla violates {r.violated}")
        chk.add_tlc(r)
        never = [a for a, (d, t) in r.coverage.items() if t == 0]
        if never:
            raise MachineryError(f"MainRun.tla: actions never taken: {never}")
        for cfg, inv in (("m_logger", "EveryCutReported"), ("m_setup", "SetupFailureFails"), ("m_notests", "ExitCodeMeaning")):
            m = run_tlc("MainRun", f"MC_MainRun_{cfg}.cfg", work=work, expect_violation=True)
            if m.violated != inv:
                raise MachineryError(f"design mutation {cfg} is not refuted by {inv}: {m.violated}")
            chk.count("mainrun_design_mutations_refuted")
        recs = [x for x in r.records if isinstance(x, dict) and "argv" in x]
        if len(recs) != 1280:
            raise MachineryError(f"MainRun.tla: {len(recs)} terminal states, expected 1280")
        rnd = random.Random(chk.seed * 131 + 5)
        # quick: the histories in which process-wide state matters (two cut tests; the two units with a contract `Tgt`) and a sample
        must = [x for x in recs if (x["depth"] and {"A", "B"} <= set(x["project"]) and len(x["project"]) <= 3 and not x["argv"])
                or ({"E", "F"} <= set(x["project"]) and len(x["project"]) <= 3 and not x["depth"] and (not x["argv"] or "E|F" in x["argv"]))]
        pick = recs if tier != "quick" else must + rnd.sample(recs, 50)
        seen = set()
        for rec in pick:
            k = (tuple(sorted(rec["project"])), tuple(rec["argv"]), rec["depth"])
            if k in seen:
                continue
            seen.add(k)
            bad = replay(rec, Path(work) / "proj")
            chk.count("evaluations")
            chk.count("traces_validated_against_impl")
            chk.nontrivial((label, k))
            mine = [t for c, t in bad if c in clauses]
            if mine:
                first = next(c for c, _ in bad if c in clauses)
                chk.violation(f"{label}:{first}:{''.join(k[0]) or '-'}:{' '.join(k[1]) or 'default'}:{'depth' if k[2] else 'nodepth'}",
                              f"halmos._main on the project {list(k[0])} with {list(k[1])}{' --depth ' + str(DEPTH) if k[2] else ''}: {mine[0]}",
                              {"project": list(k[0]), "argv": list(k[1]), "depth": k[2], "disagreements": [t for _, t in bad][:6], "specification": rec})
        chk.cov[label] = {"terminal_states": len(recs), "replayed": len(seen), "clauses": sorted(clauses)}
    finally:
        cleanup(work)
