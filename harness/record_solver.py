"""A solver wrapper that journals the text of the query file it is started on, then becomes the real solver.

halmos starts it as  `<python> -S record_solver.py <journal> <solver> [solver args] <file>.smt2`  (--solver-command); one JSON
line {"file", "text"} is appended to <journal> before the solver runs: what the solver process actually reads.
Standard library only; never imports halmos."""

import json
import os
import sys


def main(argv) -> int:
    journal, cmd = argv[1], argv[2:]
    qfile = cmd[-1]
    with open(qfile) as f:
        text = f.read()
    line = (json.dumps({"file": qfile, "text": text}) + "\n").encode()
    fd = os.open(journal, os.O_WRONLY | os.O_APPEND | os.O_CREAT, 0o644)
    try:
        os.write(fd, line)
    finally:
        os.close(fd)
    os.execvp(cmd[0], cmd)
    return 127


if __name__ == "__main__":
    sys.exit(main(sys.argv))
