"""Seeded generators of EVM programs from typed gadget grammars (E1 corpora).

Every statement keeps the stack balanced; results are written to memory slots and the epilogue
returns them, so the whole observable behaviour of a program is its (status, return data, logs).
Expressions:  ("in", k) calldata word k | ("c", n) | ("env", OP) | (OP, e1[, e2[, e3]])
Statements:   see Gen.stmt
"""

from __future__ import annotations

import random
from dataclasses import dataclass, field

from .asm import assemble
from .hrun import CALLER, ORIGIN, TARGET, Prog, Sym

M256 = 1 << 256
BOUNDARY = [
    0, 1, 2, 3, 7, 8, 31, 32, 33, 255, 256, 257, 0xFFFF, 0x10000, 2**64 - 1, 2**64, 2**128 - 1, 2**128,
    2**160 - 1, 2**160, 2**255 - 1, 2**255, 2**255 + 1, 2**256 - 1, 2**256 - 2, 2**256 - 32, 2**256 - 33,
]

BIN_CHEAP = ["ADD", "SUB", "MUL", "LT", "GT", "SLT", "SGT", "EQ", "AND", "OR", "XOR", "BYTE", "SHL", "SHR", "SAR", "SIGNEXTEND"]
BIN_DIV = ["DIV", "SDIV", "MOD", "SMOD"]
UN = ["ISZERO", "NOT"]
TER = ["ADDMOD", "MULMOD"]
ENV0 = ["ADDRESS", "ORIGIN", "CALLER", "CALLVALUE", "CALLDATASIZE", "CODESIZE", "COINBASE", "TIMESTAMP", "NUMBER",
        "DIFFICULTY", "GASLIMIT", "CHAINID", "SELFBALANCE", "BASEFEE", "RETURNDATASIZE", "PC"]


def compile_expr(e) -> list:
    t = e[0]
    if t == "in":
        return [("PUSH", 32 * e[1]), "CALLDATALOAD"]
    if t == "c":
        return [("PUSH", e[1])]
    if t == "c32":
        return [("PUSHN", 32, e[1])]
    if t == "env":
        return [e[1]]
    if t == "mload":
        return compile_expr(e[1]) + ["MLOAD"]
    if t == "sload":
        return compile_expr(e[1]) + ["SLOAD"]
    if t == "tload":
        return compile_expr(e[1]) + ["TLOAD"]
    if t == "balance":
        return compile_expr(e[1]) + ["BALANCE"]
    if t == "sha3":  # ("sha3", off, size)
        return [("PUSH", e[2]), ("PUSH", e[1]), "SHA3"]
    # operator: operands are compiled last-first so that e[1] ends on top of the stack
    out = []
    for sub in reversed(e[1:]):
        out += compile_expr(sub)
    out.append(t)
    return out


@dataclass
class Gen:
    rnd: random.Random
    nin: int = 3  # number of calldata words
    consts: set = field(default_factory=set)
    ndiv: int = 0
    max_div: int = 3
    label_id: int = 0
    allow: set = field(default_factory=lambda: {"arith", "mem", "ctl", "env"})

    def label(self, p="L"):
        self.label_id += 1
        return f"{p}{self.label_id}"

    def const(self):
        r = self.rnd
        k = r.random()
        if k < 0.45:
            v = r.choice([0, 1, 2, 3, 5, 7, 8, 10, 31, 32, 100, 255, 256, 1000])
        elif k < 0.75:
            v = r.choice(BOUNDARY)
        else:
            v = r.getrandbits(r.choice([8, 16, 64, 128, 160, 255, 256]))
        self.consts.add(v)
        return ("c", v)

    def leaf(self):
        r = self.rnd
        k = r.random()
        if k < 0.55:
            return ("in", r.randrange(self.nin))
        if k < 0.9 or "env" not in self.allow:
            return self.const()
        return ("env", r.choice(ENV0[:14]))

    def expr(self, depth: int):
        r = self.rnd
        if depth <= 0 or r.random() < 0.2:
            return self.leaf()
        k = r.random()
        if r.random() < 0.12 and self.ndiv < self.max_div:
            # an operator with one constant operand of a special shape (power of two, its negation, all ones, a low mask):
            # the shapes for which an implementation may take a shortcut (shift instead of division, mask instead of modulo)
            self.ndiv += 1
            sh = r.choice([1, 1, 2, 3, 4, 8, 16, 31, 64, 128, 160, 254, 255])
            v = r.choice([1 << sh, (1 << sh) % M256, M256 - (1 << sh), (1 << sh) - 1, M256 - 1])
            self.consts.add(v)
            self.consts.add(M256 - v)
            c = ("c", v)
            other = self.expr(depth - 1) if r.random() < 0.5 else ("in", r.randrange(self.nin))
            op = r.choice(BIN_DIV + BIN_DIV + ["MUL", "AND", "SHL", "SHR", "SAR", "SIGNEXTEND", "BYTE"])
            return (op, other, c) if r.random() < 0.7 else (op, c, other)
        if k < 0.62:
            return (r.choice(BIN_CHEAP), self.expr(depth - 1), self.expr(depth - 1))
        if k < 0.74 and self.ndiv < self.max_div:
            self.ndiv += 1
            return (r.choice(BIN_DIV), self.expr(depth - 1), self.expr(depth - 1))
        if k < 0.88:
            return (r.choice(UN), self.expr(depth - 1))
        if k < 0.93 and self.ndiv < self.max_div:
            self.ndiv += 1
            return (r.choice(TER), self.expr(depth - 1), self.expr(depth - 1), self.expr(depth - 1))
        if k < 0.96:
            # EXP with a small exponent (the reference machine pays per exponent bit)
            self.ndiv += 1
            return ("EXP", self.expr(depth - 1), ("c", r.choice([0, 1, 2, 3, 5, 17, 255, 256])))
        return (r.choice(BIN_CHEAP), self.expr(depth - 1), self.leaf())

    def cond(self, depth=1):
        r = self.rnd
        k = r.random()
        if r.random() < 0.22:
            # a bare calldata word compared with a small constant: halmos records `cd == c` as a substitution
            # for later CALLDATALOADs of the path (Concretization), which must stay local to that path
            c = ("c", r.choice([0, 1, 5, 7, 255]))
            self.consts.add(c[1])
            i = ("in", r.randrange(self.nin))
            return ("EQ", i, c) if r.random() < 0.5 else ("EQ", c, i)
        a = self.expr(depth)
        if k < 0.7:
            return (r.choice(["LT", "GT", "SLT", "SGT", "EQ"]), a, self.const() if r.random() < 0.7 else self.expr(depth))
        if k < 0.85:
            return ("ISZERO", a)
        return a


def epilogue(nslots: int) -> list:
    return [("PUSH", 32 * nslots), ("PUSH", 0), "RETURN"]


def input_pool(g: Gen, rnd: random.Random) -> list[int]:
    pool = set(BOUNDARY)
    for c in g.consts:
        for d in (-1, 0, 1):
            pool.add((c + d) % M256)
    # small negative numbers (signed division and remainder round towards zero)
    for v in (1, 2, 3, 5, 7, 9, 100):
        pool.add(M256 - v)
    for _ in range(6):
        pool.add(rnd.getrandbits(256))
        pool.add(rnd.getrandbits(rnd.choice([4, 8, 16, 64, 128, 200])))
    return sorted(pool)


def gen_inputs(g: Gen, rnd: random.Random, names: list[str], n: int) -> list[dict]:
    pool = input_pool(g, rnd)
    small = [0, 1, 2, 3, 31, 32, 255, 256]
    out = [{nm: 0 for nm in names}, {nm: M256 - 1 for nm in names}]
    while len(out) < n:
        k = rnd.random()
        src = small if k < 0.3 else pool
        out.append({nm: rnd.choice(src) for nm in names})
    return out[:n]


# ---------------------------------------------------------------------------------------------
# family: arithmetic / logic expressions, straight line


def fam_arith(rnd: random.Random, ninputs: int = 12):
    g = Gen(rnd, nin=3)
    nres = rnd.randint(1, 3)
    body = []
    exprs = []
    for k in range(nres):
        e = g.expr(rnd.randint(1, 4))
        exprs.append(e)
        body += compile_expr(e) + [("PUSH", 32 * k), "MSTORE"]
    code = assemble(body + epilogue(nres))
    names = [f"cd{i}" for i in range(g.nin)]
    prog = Prog(accounts={TARGET: code}, calldata=[Sym(nm, 256) for nm in names], name="arith", meta={"exprs": repr(exprs)})
    return prog, gen_inputs(g, rnd, names, ninputs)


# ---------------------------------------------------------------------------------------------
# family: control flow (if/else, counted loops, reverts, invalid, bad jumps, underflow)


def _ifelse(g: Gen, cond, then: list, els: list) -> list:
    lt, le = g.label("T"), g.label("E")
    return compile_expr(cond) + [("PUSHL", lt), "JUMPI"] + els + [("PUSHL", le), "JUMP", ("LABEL", lt)] + then + [("LABEL", le)]


def fam_control(rnd: random.Random, ninputs: int = 12):
    g = Gen(rnd, nin=3, max_div=1)
    body = []
    nslots = 3

    def store(k):
        return compile_expr(g.expr(2)) + [("PUSH", 32 * k), "MSTORE"]

    def terminal():
        k = rnd.random()
        if k < 0.3:
            return compile_expr(g.expr(1)) + [("PUSH", 0), "MSTORE", ("PUSH", rnd.choice([0, 4, 32, 36, 64])), ("PUSH", 0), "REVERT"]
        if k < 0.45:
            return ["INVALID"]
        if k < 0.55:
            return [("PUSH", rnd.choice([0, 1, 3, 0xFFFF, 2**255])), "JUMP"]  # invalid destination
        if k < 0.65:
            return ["POP"] if rnd.random() < 0.5 else ["ADD"]  # stack underflow (the stack is empty here)
        if k < 0.75:
            return ["STOP"]
        return store(rnd.randrange(nslots)) + [("PUSH", 32 * nslots), ("PUSH", 0), "RETURN"]

    def block(depth):
        out = []
        for _ in range(rnd.randint(1, 2)):
            k = rnd.random()
            if k < 0.45 or depth <= 0:
                out += store(rnd.randrange(nslots))
            elif k < 0.8:
                out += _ifelse(g, g.cond(), block(depth - 1), block(depth - 1) if rnd.random() < 0.7 else [])
            elif k < 0.86 and depth >= 1:
                # a term pinned by an equality and used again without being re-read from calldata (kept in memory, as a
                # compiler keeps it on the stack): `x = cd_i; if (x == c) { if (x == cd_j) A else B } else C`
                i, j = rnd.sample(range(g.nin), 2)
                c = rnd.choice([0, 1, 5, 7, 255, 2**160 - 1])
                g.consts.add(c)
                pins.append((i, j, c))
                x = ("mload", ("c", 0x300 + 32 * len(pins)))
                out += compile_expr(("in", i)) + [("PUSH", x[1][1]), "MSTORE"]
                inner = _ifelse(g, ("EQ", x, ("in", j)) if rnd.random() < 0.5 else ("EQ", ("in", j), x), store(rnd.randrange(nslots)), store(rnd.randrange(nslots)))
                out += _ifelse(g, ("EQ", x, ("c", c)), inner, store(rnd.randrange(nslots)) if rnd.random() < 0.5 else [])
            elif k < 0.9:
                if rnd.random() < 0.35:
                    # a conditional jump straight to an invalid destination: only the jumping inputs halt ...
                    if rnd.random() < 0.5:
                        # ... and the fall-through continues with a branch on the same input (decided by the solver
                        # under the negated jump condition): `if (x < c1) invalid; if (x > c2) A else B`
                        i = ("in", rnd.randrange(g.nin))
                        c1 = rnd.choice([1, 10, 256, 2**128])
                        c2 = c1 * 2 + rnd.choice([0, 1, 20])
                        g.consts.update({c1, c2})
                        out += compile_expr(("LT", i, ("c", c1))) + [("PUSH", rnd.choice([0xFFFF, 0xFFFFFF])), "JUMPI"]
                        out += _ifelse(g, ("GT", i, ("c", c2)), store(rnd.randrange(nslots)), store(rnd.randrange(nslots)))
                    else:
                        out += compile_expr(g.cond()) + [("PUSH", rnd.choice([0xFFFF, 0xFFFFFF])), "JUMPI"]
                else:
                    out += _ifelse(g, g.cond(), terminal(), [])
            else:
                # counted loop with a concrete trip count: mem[slot] += expr, n times
                n = rnd.randint(1, 4)
                slot = rnd.randrange(nslots)
                top, done = g.label("LP"), g.label("LD")
                out += [("PUSH", n), ("LABEL", top), "DUP1", "ISZERO", ("PUSHL", done), "JUMPI"]
                out += [("PUSH", 32 * slot), "MLOAD"] + compile_expr(g.expr(1)) + ["ADD", ("PUSH", 32 * slot), "MSTORE"]
                out += [("PUSH", 1), "SWAP1", "SUB", ("PUSHL", top), "JUMP", ("LABEL", done), "POP"]
        return out

    pins: list = []
    body = block(2)
    code = assemble(body + epilogue(nslots))
    names = [f"cd{i}" for i in range(g.nin)]
    prog = Prog(accounts={TARGET: code}, calldata=[Sym(nm, 256) for nm in names], name="control")
    inputs = gen_inputs(g, rnd, names, ninputs)
    for i, j, c in pins:
        for other in (c, (c + 1) % M256):
            inp = dict(rnd.choice(inputs))
            inp[f"cd{i}"], inp[f"cd{j}"] = c, other
            inputs.append(inp)
    return prog, inputs


# ---------------------------------------------------------------------------------------------
# family: memory / calldata / code copies


MEM_OTHER = 0x0000000000000000000000000000000000C0FFEE


def fam_memory(rnd: random.Random, ninputs: int = 10):
    g = Gen(rnd, nin=3, max_div=0)
    offs = [0, 1, 5, 31, 32, 33, 60, 64, 95, 96, 100, 127, 128]
    body = []
    # halmos derives MSIZE from the highest offset *written*; the EVM also counts reads.  That
    # divergence is a recorded finding (probe `msize-after-read`), so the random corpus only asks
    # for MSIZE while both notions agree: hw = end of the highest write, ht = end of the highest touch.
    hw = ht = 0

    def c32(n):
        return (n + 31) // 32 * 32

    for _ in range(rnd.randint(2, 6)):
        k = rnd.random()
        o = rnd.choice(offs)
        if k < 0.25:
            body += compile_expr(g.expr(1)) + [("PUSH", o), "MSTORE"]
            hw = max(hw, o + 32)
        elif k < 0.4:
            body += compile_expr(g.expr(1)) + [("PUSH", o), "MSTORE8"]
            hw = max(hw, o + 1)
        elif k < 0.55:
            # CALLDATACOPY(dst, off, size), possibly reading past the end of calldata
            sz = rnd.choice([0, 1, 7, 32, 33, 64, 100])
            body += [("PUSH", sz), ("PUSH", rnd.choice([0, 1, 31, 32, 64, 90, 96, 200])), ("PUSH", o), "CALLDATACOPY"]
            if sz:
                hw = max(hw, o + sz)
        elif k < 0.65:
            sz = rnd.choice([0, 1, 7, 32, 40])
            kk = rnd.random()
            if kk < 0.4:
                body += [("PUSH", sz), ("PUSH", rnd.choice([0, 1, 5, 30, 1000])), ("PUSH", o), "CODECOPY"]
            elif kk < 0.7:
                # a read that starts inside the code and runs past its end (must be zero-filled)
                body += [("PUSH", sz), ("PUSH", rnd.choice([0, 1, 4, 31])), "CODESIZE", "SUB", ("PUSH", o), "CODECOPY"]
            else:
                # EXTCODECOPY of this account, of a small other account, of an account without code
                who = rnd.choice([TARGET, MEM_OTHER, 0x9999])
                off = rnd.choice([0, 1, 3, 5, 30]) if who != TARGET else rnd.choice([0, 5, 1000])
                body += [("PUSH", sz), ("PUSH", off), ("PUSH", o), ("PUSH", who), "EXTCODECOPY"]
            if sz:
                hw = max(hw, o + sz)
        elif k < 0.8:
            sz = rnd.choice([0, 1, 31, 32, 33, 64])
            src = rnd.choice(offs)
            body += [("PUSH", sz), ("PUSH", src), ("PUSH", o), "MCOPY"]
            if sz:
                hw = max(hw, o + sz)
                ht = max(ht, src + sz)
        elif k < 0.9:
            src = rnd.choice(offs)
            body += [("PUSH", src), "MLOAD", ("PUSH", o), "MSTORE"]
            ht = max(ht, src + 32)
            hw = max(hw, o + 32)
        elif c32(ht) <= c32(hw):
            body += ["MSIZE", ("PUSH", o), "MSTORE"]
            hw = max(hw, o + 32)
    size = rnd.choice([32, 64, 96, 160, 192, 200])
    code = assemble(body + [("PUSH", size), ("PUSH", rnd.choice([0, 0, 0, 1, 32])), "RETURN"])
    names = [f"cd{i}" for i in range(g.nin)]
    prog = Prog(accounts={TARGET: code, MEM_OTHER: bytes([0x60, 0x01, 0x60, 0x02, 0x01, 0x00])}, calldata=[Sym(nm, 256) for nm in names], name="memory")
    return prog, gen_inputs(g, rnd, names, ninputs)


# ---------------------------------------------------------------------------------------------
# family: storage, transient storage, hashing, logs, environment


def fam_state(rnd: random.Random, ninputs: int = 10):
    g = Gen(rnd, nin=3, max_div=1)
    body = []
    nslots = 4

    def slot_expr():
        k = rnd.random()
        if k < 0.4:
            return ("c", rnd.choice([0, 1, 2, 3, 2**255, M256 - 1]))
        if k < 0.7:
            return ("in", rnd.randrange(g.nin))
        return ("ADD", ("in", rnd.randrange(g.nin)), ("c", rnd.choice([0, 1, 2])))

    for _ in range(rnd.randint(2, 6)):
        k = rnd.random()
        if k < 0.3:
            body += compile_expr(g.expr(1)) + compile_expr(slot_expr()) + ["SSTORE"]
        elif k < 0.5:
            body += compile_expr(("sload", slot_expr())) + [("PUSH", 32 * rnd.randrange(nslots)), "MSTORE"]
        elif k < 0.6:
            body += compile_expr(g.expr(1)) + compile_expr(slot_expr()) + ["TSTORE"]
        elif k < 0.7:
            body += compile_expr(("tload", slot_expr())) + [("PUSH", 32 * rnd.randrange(nslots)), "MSTORE"]
        elif k < 0.8:
            # keccak of a memory region holding input words
            body += compile_expr(g.leaf()) + [("PUSH", 0x80), "MSTORE"]
            body += compile_expr(("sha3", 0x80, rnd.choice([0, 1, 31, 32, 64]))) + [("PUSH", 32 * rnd.randrange(nslots)), "MSTORE"]
        elif k < 0.92:
            nt = rnd.randint(0, 4)
            for _t in range(nt):
                body += compile_expr(g.leaf())
            body += [("PUSH", rnd.choice([0, 1, 32, 40])), ("PUSH", rnd.choice([0, 32, 33])), f"LOG{nt}"]
        else:
            body += compile_expr(("env", rnd.choice(ENV0))) + [("PUSH", 32 * rnd.randrange(nslots)), "MSTORE"]
    # epilogue: re-read every statically known slot
    code = assemble(body + epilogue(nslots))
    names = [f"cd{i}" for i in range(g.nin)]
    prog = Prog(
        accounts={TARGET: code},
        calldata=[Sym(nm, 256) for nm in names],
        caller=Sym("msg_sender", 160),
        value=Sym("msg_value", 256),
        balances={TARGET: Sym("bal_this", 256)},
        name="state",
    )
    inputs = gen_inputs(g, rnd, names, ninputs)
    for inp in inputs:
        inp["msg_sender"] = rnd.choice([CALLER, 0, 1, 2**160 - 1, rnd.getrandbits(160)])
        inp["msg_value"] = rnd.choice([0, 1, 2**64, rnd.getrandbits(100)])
        inp["bal_this"] = rnd.choice([0, 1, 10**18, 2**128, rnd.getrandbits(120)])
    # small colliding key domain for the symbolic slots
    for inp in inputs[: len(inputs) // 2]:
        for nm in names:
            inp[nm] = rnd.choice([0, 1, 2, 3])
    return prog, inputs


def fam_shortcut(rnd: random.Random, ninputs: int = 14):
    """Four results `op(x, c)` / `op(c, x)` for a calldata word x and a constant c of a special shape - power of two, its
    negation, a low mask, all ones - with the division family over-represented: the operand shapes for which an
    implementation may replace the operator (a shift for a division, a mask for a remainder, a shift for a product).
    Inputs sit around multiples of the constant on both sides of zero (signed operators round towards zero)."""
    g = Gen(rnd, nin=2)
    body, exprs, vals = [], [], set()
    n = 4
    for k in range(n):
        sh = rnd.choice([1, 1, 2, 2, 3, 4, 8, 16, 31, 64, 128, 160, 254, 255])
        v = rnd.choice([1 << sh, 1 << sh, M256 - (1 << sh), (1 << sh) - 1, M256 - 1])
        op = rnd.choice(BIN_DIV * 3 + ["MUL", "AND", "SHL", "SHR", "SAR", "SIGNEXTEND", "BYTE", "EXP"])
        if op == "EXP":
            v = rnd.choice([0, 1, 2, 3])
        x = ("in", rnd.randrange(g.nin))
        if rnd.random() < 0.25:
            x = (rnd.choice(["ADD", "SUB", "NOT", "MUL"]), x, ("in", rnd.randrange(g.nin)))[: 2 if rnd.random() < 0.3 else 3]
            if len(x) == 2:
                x = ("NOT", x[1])
        e = (op, x, ("c", v)) if rnd.random() < 0.75 or op == "EXP" else (op, ("c", v), x)
        exprs.append(e)
        vals.add(v)
        body += compile_expr(e) + [("PUSH", 32 * k), "MSTORE"]
    code = assemble(body + epilogue(n))
    names = [f"cd{i}" for i in range(g.nin)]
    pool = {0, 1, M256 - 1, 2**255, 2**255 - 1, 2**255 + 1}
    for v in vals:
        for m in (1, 2, 3):
            for d in (-1, 0, 1):
                pool.add((m * v + d) % M256)
                pool.add((-(m * v) + d) % M256)
    for v in (2, 3, 5, 7, 9, 100, 255, 256, 257):
        pool.add(v)
        pool.add(M256 - v)
    pool = sorted(pool)
    inputs = [{nm: rnd.choice(pool) for nm in names} for _ in range(ninputs - 2)]
    inputs += [{nm: rnd.getrandbits(256) for nm in names}, {nm: M256 - 1 - rnd.getrandbits(rnd.choice([3, 8, 64])) for nm in names}]
    prog = Prog(accounts={TARGET: code}, calldata=[Sym(nm, 256) for nm in names], name="shortcut", meta={"exprs": repr(exprs)})
    return prog, inputs


FAMILIES = {
    "shortcut": fam_shortcut,
    "arith": fam_arith,
    "control": fam_control,
    "memory": fam_memory,
    "state": fam_state,
}
