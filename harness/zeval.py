"""Pointwise evaluation of z3 terms at a concrete assignment (SMT-LIB standard interpretation).

The evaluator knows nothing about the EVM: it implements the meaning of the bit-vector, Boolean
and array operators, plus a table of interpretations for uninterpreted functions which the
caller supplies (`standard_interp()` gives the interpretation under which halmos' abstractions
are to be read: keccak for f_sha3_N, exact EVM arithmetic for f_evm_*).

Values: int for bit-vectors (always reduced modulo 2^size), bool for Booleans, Arr for arrays.
"""

from __future__ import annotations

import sys

import z3
from eth_hash.auto import keccak as _keccak

sys.setrecursionlimit(max(sys.getrecursionlimit(), 20000))


class Unbound(Exception):
    """A free symbol (or uninterpreted function) has no value in the environment."""


class Unsupported(Exception):
    pass


class Arr:
    """A total array: finite map + default (None = unknown default; a callable computes the default per key)."""

    __slots__ = ("m", "default")

    def __init__(self, default=None, m=None):
        self.m = dict(m) if m else {}
        self.default = default

    def select(self, k):
        if k in self.m:
            return self.m[k]
        if self.default is None:
            raise Unbound(f"array default needed for key {k:#x}")
        if callable(self.default):
            return self.default(k)
        return self.default

    def store(self, k, v):
        a = Arr(self.default, self.m)
        a.m[k] = v
        return a

    def __eq__(self, o):
        if not isinstance(o, Arr):
            return False
        if self.default != o.default:
            return False
        keys = set(self.m) | set(o.m)
        return all(self.select(k) == o.select(k) for k in keys)

    def __hash__(self):  # pragma: no cover
        return 0

    def __repr__(self):
        return f"Arr(default={self.default}, {self.m})"


def _signed(x: int, n: int) -> int:
    return x - (1 << n) if x >> (n - 1) else x


def evm_sdiv(x, y, n=256):
    if y == 0:
        return 0
    sx, sy = _signed(x, n), _signed(y, n)
    q = abs(sx) // abs(sy)
    if (sx < 0) != (sy < 0):
        q = -q
    return q % (1 << n)


def evm_smod(x, y, n=256):
    if y == 0:
        return 0
    sx, sy = _signed(x, n), _signed(y, n)
    r = abs(sx) % abs(sy)
    if sx < 0:
        r = -r
    return r % (1 << n)


class Interp:
    """Interpretation of uninterpreted function symbols, by name."""

    def __init__(self):
        self.inv_sha3 = {}  # low 160 bits of hash -> (data, bitsize)
        self.extra = {}  # name -> callable(args, argsizes, outsize)
        self.strict_abstractions = False  # if True, f_evm_* are NOT interpreted (C11 refined queries)
        self.used = set()
        # initial contents of storage: callable(name of halmos' initial storage term, index | None, index bits) -> word.
        # None: the initial arrays storage_*_00 are all-zero (accounts without symbolic storage)
        self.storage0 = None

    def apply(self, name: str, args: list[int], sizes: list[int], outsize: int):
        self.used.add(name)
        if name in self.extra:
            return self.extra[name](args, sizes, outsize)
        if name.startswith("f_evm_"):
            if self.strict_abstractions:
                raise Unbound(f"abstraction {name} left uninterpreted")
            n = sizes[0]
            x, y = args
            mask = (1 << n) - 1
            op = name[len("f_evm_") :].rsplit("_", 1)[0]
            if op == "bvmul":
                return (x * y) & mask
            if op == "bvudiv":
                return 0 if y == 0 else x // y
            if op == "bvurem":
                return 0 if y == 0 else x % y
            if op == "bvsdiv":
                return evm_sdiv(x, y, n)
            if op == "bvsrem":
                return evm_smod(x, y, n)
            if op == "exp":
                return pow(x, y, 1 << n)
            raise Unbound(name)
        if name.startswith("f_sha3_"):
            n = sizes[0]
            data = args[0].to_bytes(n // 8, "big")
            h = int.from_bytes(_keccak(data), "big")
            self.inv_sha3[h & ((1 << 160) - 1)] = (args[0], n)
            return h
        if name == "f_inv_sha3_size":
            if args[0] not in self.inv_sha3:
                raise Unbound(f"f_inv_sha3_size of unknown hash {args[0]:#x}")
            return self.inv_sha3[args[0]][1]
        if name.startswith("f_inv_sha3_"):
            if args[0] not in self.inv_sha3:
                raise Unbound(f"{name} of unknown hash {args[0]:#x}")
            d, n = self.inv_sha3[args[0]]
            if n != outsize:
                # the inverse of a hash with a preimage of another size: any value is consistent
                return 0
            return d
        raise Unbound(f"uninterpreted function {name}")


EMPTY_KECCAK = int.from_bytes(_keccak(b""), "big")

K = z3  # shorthand for the Z3_OP_* constants


class Evaluator:
    def __init__(self, env: dict | None = None, interp: Interp | None = None, zero_arrays: bool = True):
        self.env = dict(env) if env else {}
        self.interp = interp or Interp()
        self.zero_arrays = zero_arrays
        self.cache: dict[int, object] = {}
        self._keep = []  # keep evaluated asts alive so ids are not recycled under the cache

    # -- public
    def bind(self, name: str, value) -> None:
        self.env[name] = value
        self.cache.clear()

    def eval(self, e):
        if isinstance(e, bool | int):
            return e
        if isinstance(e, bytes):
            return int.from_bytes(e, "big")
        return self._ev(e)

    def add_condition(self, cond) -> bool:
        """Evaluate one path condition; `sym == term` with an unbound, non-input symbol on one side
        defines that symbol (store chains, balance chains, exit codes) and yields True."""
        if z3.is_eq(cond):
            l, r = cond.arg(0), cond.arg(1)
            for a, b in ((l, r), (r, l)):
                if self._is_unbound_const(a):
                    try:
                        v = self._ev(b)
                    except Unbound:
                        continue
                    self.bind(a.decl().name(), v)
                    return True
        v = self._ev(cond)
        if not isinstance(v, bool):
            raise Unsupported(f"condition is not boolean: {cond}")
        return v

    # -- internals
    def _is_unbound_const(self, a) -> bool:
        if not z3.is_const(a) or a.decl().kind() != z3.Z3_OP_UNINTERPRETED:
            return False
        name = a.decl().name()
        if name in self.env:
            return False
        if name == "f_sha3_0":
            return False
        if self.zero_arrays and z3.is_array(a) and _is_empty_array_name(name):
            return False
        if self.interp.storage0 is not None and _is_empty_array_name(name) and name != "balance_00":
            return False
        return True

    def _const(self, e):
        name = e.decl().name()
        if name in self.env:
            return self.env[name]
        if name == "f_sha3_0":
            self.interp.inv_sha3[EMPTY_KECCAK & ((1 << 160) - 1)] = (0, 0)
            return EMPTY_KECCAK
        if z3.is_array(e) and name.startswith("tstorage_") and _is_empty_array_name(name) and (self.zero_arrays or self.interp.storage0 is not None):
            return Arr(0)  # transient storage starts empty, whatever the account's persistent storage is
        if self.interp.storage0 is not None and _is_empty_array_name(name) and name != "balance_00":
            f = self.interp.storage0
            if z3.is_array(e):
                bits = e.sort().domain().size()
                return Arr(lambda k: f(name, k, bits))
            return f(name, None, 0)
        if z3.is_array(e) and self.zero_arrays and _is_empty_array_name(name):
            return Arr(0)
        raise Unbound(name)

    def _ev(self, e):
        i = e.get_id()
        c = self.cache.get(i)
        if c is not None:
            return c
        v = self._ev1(e)
        self.cache[i] = v
        self._keep.append(e)
        return v

    def _ev1(self, e):
        d = e.decl()
        k = d.kind()
        n = e.num_args()
        if k == z3.Z3_OP_BNUM:
            return e.as_long()
        if k == z3.Z3_OP_TRUE:
            return True
        if k == z3.Z3_OP_FALSE:
            return False
        if k == z3.Z3_OP_UNINTERPRETED:
            if n == 0:
                return self._const(e)
            args = [self._ev(e.arg(j)) for j in range(n)]
            sizes = [e.arg(j).size() if z3.is_bv(e.arg(j)) else 0 for j in range(n)]
            out = e.size() if z3.is_bv(e) else 0
            return self.interp.apply(d.name(), args, sizes, out)
        if k == z3.Z3_OP_ITE:
            c = self._ev(e.arg(0))
            return self._ev(e.arg(1)) if c else self._ev(e.arg(2))
        if k == z3.Z3_OP_AND:
            for j in range(n):
                if not self._ev(e.arg(j)):
                    return False
            return True
        if k == z3.Z3_OP_OR:
            for j in range(n):
                if self._ev(e.arg(j)):
                    return True
            return False
        if k == z3.Z3_OP_NOT:
            return not self._ev(e.arg(0))
        if k == z3.Z3_OP_IMPLIES:
            return (not self._ev(e.arg(0))) or self._ev(e.arg(1))
        if k in (z3.Z3_OP_EQ, z3.Z3_OP_IFF):
            return self._ev(e.arg(0)) == self._ev(e.arg(1))
        if k == z3.Z3_OP_XOR:
            r = False
            for j in range(n):
                r ^= self._ev(e.arg(j))
            return r
        if k == z3.Z3_OP_DISTINCT:
            vals = [self._ev(e.arg(j)) for j in range(n)]
            return len(set(vals)) == len(vals)
        if k == z3.Z3_OP_SELECT:
            a = self._ev(e.arg(0))
            return a.select(self._ev(e.arg(1)))
        if k == z3.Z3_OP_STORE:
            a = self._ev(e.arg(0))
            return a.store(self._ev(e.arg(1)), self._ev(e.arg(2)))
        if k == z3.Z3_OP_CONST_ARRAY:
            return Arr(self._ev(e.arg(0)))

        # bit-vector operators
        if not (z3.is_bv(e) or z3.is_bool(e)):
            raise Unsupported(f"sort of {d.name()}")
        a = [self._ev(e.arg(j)) for j in range(n)]
        if z3.is_bool(e):
            sz = e.arg(0).size()
            x, y = a[0], a[1]
            if k == z3.Z3_OP_ULEQ:
                return x <= y
            if k == z3.Z3_OP_ULT:
                return x < y
            if k == z3.Z3_OP_UGEQ:
                return x >= y
            if k == z3.Z3_OP_UGT:
                return x > y
            sx, sy = _signed(x, sz), _signed(y, sz)
            if k == z3.Z3_OP_SLEQ:
                return sx <= sy
            if k == z3.Z3_OP_SLT:
                return sx < sy
            if k == z3.Z3_OP_SGEQ:
                return sx >= sy
            if k == z3.Z3_OP_SGT:
                return sx > sy
            raise Unsupported(f"bool op {d.name()} kind {k}")
        sz = e.size()
        mask = (1 << sz) - 1
        if k == z3.Z3_OP_BADD:
            return sum(a) & mask
        if k == z3.Z3_OP_BSUB:
            r = a[0]
            for v in a[1:]:
                r -= v
            return r & mask
        if k == z3.Z3_OP_BMUL:
            r = 1
            for v in a:
                r = (r * v) & mask
            return r
        if k == z3.Z3_OP_BNEG:
            return (-a[0]) & mask
        if k in (z3.Z3_OP_BUDIV, z3.Z3_OP_BUDIV_I):
            return mask if a[1] == 0 else a[0] // a[1]
        if k in (z3.Z3_OP_BUREM, z3.Z3_OP_BUREM_I):
            return a[0] if a[1] == 0 else a[0] % a[1]
        if k in (z3.Z3_OP_BSDIV, z3.Z3_OP_BSDIV_I):
            if a[1] == 0:
                return 1 if _signed(a[0], sz) < 0 else mask
            return evm_sdiv(a[0], a[1], sz)
        if k in (z3.Z3_OP_BSREM, z3.Z3_OP_BSREM_I):
            if a[1] == 0:
                return a[0]
            return evm_smod(a[0], a[1], sz)
        if k in (z3.Z3_OP_BSMOD, z3.Z3_OP_BSMOD_I):
            if a[1] == 0:
                return a[0]
            sx, sy = _signed(a[0], sz), _signed(a[1], sz)
            return (sx % sy) & mask  # python % takes the sign of the divisor, as bvsmod
        if k == z3.Z3_OP_BAND:
            r = mask
            for v in a:
                r &= v
            return r
        if k == z3.Z3_OP_BOR:
            r = 0
            for v in a:
                r |= v
            return r
        if k == z3.Z3_OP_BXOR:
            r = 0
            for v in a:
                r ^= v
            return r
        if k == z3.Z3_OP_BNOT:
            return ~a[0] & mask
        if k == z3.Z3_OP_BNAND:
            return ~(a[0] & a[1]) & mask
        if k == z3.Z3_OP_BNOR:
            return ~(a[0] | a[1]) & mask
        if k == z3.Z3_OP_BXNOR:
            return ~(a[0] ^ a[1]) & mask
        if k == z3.Z3_OP_CONCAT:
            r = 0
            for j in range(n):
                r = (r << e.arg(j).size()) | a[j]
            return r
        if k == z3.Z3_OP_EXTRACT:
            hi, lo = e.params()
            return (a[0] >> lo) & ((1 << (hi - lo + 1)) - 1)
        if k == z3.Z3_OP_ZERO_EXT:
            return a[0]
        if k == z3.Z3_OP_SIGN_EXT:
            return _signed(a[0], e.arg(0).size()) & mask
        if k == z3.Z3_OP_REPEAT:
            cnt = e.params()[0]
            w = e.arg(0).size()
            r = 0
            for _ in range(cnt):
                r = (r << w) | a[0]
            return r
        if k == z3.Z3_OP_BSHL:
            return 0 if a[1] >= sz else (a[0] << a[1]) & mask
        if k == z3.Z3_OP_BLSHR:
            return 0 if a[1] >= sz else a[0] >> a[1]
        if k == z3.Z3_OP_BASHR:
            s = _signed(a[0], sz)
            return (s >> min(a[1], sz)) & mask
        if k == z3.Z3_OP_BCOMP:
            return 1 if a[0] == a[1] else 0
        if k == z3.Z3_OP_ROTATE_LEFT:
            r = e.params()[0] % sz
            return ((a[0] << r) | (a[0] >> (sz - r))) & mask
        if k == z3.Z3_OP_ROTATE_RIGHT:
            r = e.params()[0] % sz
            return ((a[0] >> r) | (a[0] << (sz - r))) & mask
        if k == z3.Z3_OP_EXT_ROTATE_LEFT:
            r = a[1] % sz
            return ((a[0] << r) | (a[0] >> (sz - r))) & mask
        if k == z3.Z3_OP_EXT_ROTATE_RIGHT:
            r = a[1] % sz
            return ((a[0] >> r) | (a[0] << (sz - r))) & mask
        raise Unsupported(f"bv op {d.name()} kind {k}")


def _is_empty_array_name(name: str) -> bool:
    # halmos names the initial (all-zero) arrays storage_<...>_00, tstorage_<...>_00 (transient) and balance_00
    return name.endswith("_00") and (name.startswith("storage_") or name.startswith("tstorage_") or name == "balance_00")


def selftest() -> None:
    """Cross-check the evaluator against z3's own simplifier on ground terms."""
    import random

    rnd = random.Random(1)
    x, y = z3.BitVec("x", 16), z3.BitVec("y", 16)
    terms = [
        x + y, x - y, x * y, z3.UDiv(x, y), z3.URem(x, y), x / y, z3.SRem(x, y), x % y,
        x & y, x | y, x ^ y, ~x, -x, x << y, z3.LShR(x, y), x >> y,
        z3.Concat(x, y), z3.Extract(11, 3, x), z3.ZeroExt(5, x), z3.SignExt(7, x),
        z3.If(z3.ULT(x, y), x, y), z3.If(x < y, x, y), z3.If(z3.ULE(x, y), x, y), z3.If(x >= y, x, y),
        z3.If(z3.UGE(x, y), x, y), z3.If(z3.UGT(x, y), x, y), z3.If(x > y, x, y), z3.If(x <= y, x, y),
        z3.RotateLeft(x, 3), z3.RotateRight(x, 5), z3.RepeatBitVec(2, x),
        z3.Select(z3.Store(z3.K(z3.BitVecSort(16), z3.BitVecVal(7, 16)), x, y), y),
    ]
    vals = [0, 1, 2, 0x7FFF, 0x8000, 0xFFFF, 0xFFFE, 15, 16, 17] + [rnd.randrange(1 << 16) for _ in range(20)]
    for t in terms:
        for _ in range(40):
            a, b = rnd.choice(vals), rnd.choice(vals)
            want = z3.simplify(z3.substitute(t, (x, z3.BitVecVal(a, 16)), (y, z3.BitVecVal(b, 16))))
            got = Evaluator({"x": a, "y": b}).eval(t)
            assert want.as_long() == got, (t, a, b, want, got)


if __name__ == "__main__":
    selftest()
    print("zeval selftest ok")
