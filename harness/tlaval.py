"""Parser for TLA+ values as printed by TLC (PrintT, state dumps, error traces).

Supported: integers, strings, TRUE/FALSE, model values (bare identifiers), tuples <<..>>,
sets {..}, records [a |-> v, ..], functions (d :> v @@ ..), and intervals a..b.
Tuples -> list, sets -> frozenset (or list when unhashable), records -> dict,
functions -> dict.
"""

from __future__ import annotations


class ParseError(Exception):
    pass


class _P:
    def __init__(self, s: str):
        self.s = s
        self.i = 0
        self.n = len(s)

    def ws(self):
        s, n = self.s, self.n
        while self.i < n and s[self.i] in " \t\r\n":
            self.i += 1

    def peek(self, k=1):
        return self.s[self.i : self.i + k]

    def expect(self, tok):
        self.ws()
        if not self.s.startswith(tok, self.i):
            raise ParseError(f"expected {tok!r} at {self.i}: {self.s[self.i:self.i+40]!r}")
        self.i += len(tok)

    def value(self):
        v = self.atom()
        # function construction d :> v @@ d2 :> v2
        self.ws()
        if self.peek(2) == ":>":
            res = {}
            key = v
            while True:
                self.expect(":>")
                val = self.atom()
                res[_hashable(key)] = val
                self.ws()
                if self.peek(2) == "@@":
                    self.i += 2
                    key = self.atom()
                    continue
                break
            return res
        if self.peek(2) == "..":
            self.i += 2
            hi = self.atom()
            return list(range(v, hi + 1))
        return v

    def atom(self):
        self.ws()
        s = self.s
        if self.i >= self.n:
            raise ParseError("unexpected end")
        c = s[self.i]
        if c == "<" and self.peek(2) == "<<":
            self.i += 2
            items = self.items(">>")
            return items
        if c == "{":
            self.i += 1
            items = self.items("}")
            try:
                return frozenset(_hashable(x) for x in items)
            except TypeError:
                return items
        if c == "[":
            self.i += 1
            rec = {}
            self.ws()
            if self.peek() == "]":
                self.i += 1
                return rec
            while True:
                self.ws()
                j = self.i
                while self.i < self.n and (s[self.i].isalnum() or s[self.i] == "_"):
                    self.i += 1
                name = s[j : self.i]
                self.expect("|->")
                rec[name] = self.value()
                self.ws()
                if self.peek() == ",":
                    self.i += 1
                    continue
                self.expect("]")
                return rec
        if c == "(":
            self.i += 1
            v = self.value()
            self.expect(")")
            return v
        if c == '"':
            self.i += 1
            out = []
            while True:
                if self.i >= self.n:
                    raise ParseError("unterminated string")
                ch = s[self.i]
                if ch == "\\":
                    nx = s[self.i + 1]
                    out.append({"n": "\n", "t": "\t", '"': '"', "\\": "\\"}.get(nx, nx))
                    self.i += 2
                    continue
                if ch == '"':
                    self.i += 1
                    return "".join(out)
                out.append(ch)
                self.i += 1
        if c == "-" or c.isdigit():
            j = self.i
            self.i += 1
            while self.i < self.n and s[self.i].isdigit():
                self.i += 1
            return int(s[j : self.i])
        if c.isalpha() or c == "_":
            j = self.i
            while self.i < self.n and (s[self.i].isalnum() or s[self.i] == "_"):
                self.i += 1
            w = s[j : self.i]
            if w == "TRUE":
                return True
            if w == "FALSE":
                return False
            return ModelValue(w)
        raise ParseError(f"unexpected {c!r} at {self.i}: {s[self.i:self.i+40]!r}")

    def items(self, close):
        out = []
        self.ws()
        if self.s.startswith(close, self.i):
            self.i += len(close)
            return out
        while True:
            out.append(self.value())
            self.ws()
            if self.peek() == ",":
                self.i += 1
                continue
            self.expect(close)
            return out


class ModelValue(str):
    pass


def _hashable(x):
    if isinstance(x, list):
        return tuple(_hashable(y) for y in x)
    if isinstance(x, dict):
        return tuple(sorted((k, _hashable(v)) for k, v in x.items()))
    return x


def parse(s: str):
    p = _P(s)
    v = p.value()
    p.ws()
    if p.i != p.n:
        raise ParseError(f"trailing input at {p.i}: {s[p.i:p.i+40]!r}")
    return v


def parse_prefix(s: str, start: int = 0):
    """Parse one value starting at `start`; returns (value, end_index)."""
    p = _P(s)
    p.i = start
    v = p.value()
    return v, p.i
