"""C12 conformance: halmos' symbolic calldata (`halmos.calldata.mk_calldata`) against spec/Abi.tla.

Flow (see checks/c12.py):
  1. `generate()`      TLC (spec/AbiGen.tla) enumerates signatures + candidate-length configurations.
  2. `build_case()`    the real `mk_calldata` is called with a real Config; the returned ByteVec is taken
                       apart structurally (which byte is a constant / which byte of which symbol) and
                       instantiated with `harness.zeval` (every leaf symbol := a recognisable random value).
  3. `run_cases()`     TLC (spec/AbiRun.tla) instantiates the size symbols with every candidate combination,
                       decodes with Abi!DecodeRaw, judges offsets/overlap/shape, prints the decoded leaves
                       and, for selected combinations, a generated argument tuple encoded by Abi!EncodeGen.
  4. `judge_case()`    leaves <-> symbols (by position, by value, by name), generality (unification of the
                       symbolic calldata with the TLC-made encoding), dyn_params = configured candidates.

Nothing here computes an ABI encoding: offsets, layouts, encodings and decodings all come from TLC.
"""

from __future__ import annotations

import itertools
import json
import random
from dataclasses import dataclass, field

from .common import MachineryError, run_tlc

from . import hrun  # noqa: F401  (imports halmos.__main__ early, sets sys.path)

import z3  # noqa: E402
from eth_hash.auto import keccak  # noqa: E402
from halmos.calldata import FunctionInfo, mk_calldata, str_abi  # noqa: E402

from . import zeval  # noqa: E402

STATIC_KINDS = {"uint", "int", "address", "bool", "fbytes"}
BYTES_KINDS = {"bytes", "string"}


# ---------------------------------------------------------------------------------------------
# type trees (the JSON form of the records of spec/Abi.tla)


def elem_type_str(t: dict) -> str:
    k = t["k"]
    if k in ("uint", "int"):
        return f"{k}{t['n']}"
    if k == "fbytes":
        return f"bytes{t['n']}"
    return k  # address bool bytes string


def abi_item_of(t: dict, name: str) -> dict:
    """The JSON-ABI item ({name, type, components}) of a type tree."""
    suffix = ""
    base = t
    while base["k"] in ("darr", "farr"):
        suffix = ("[]" if base["k"] == "darr" else f"[{base['n']}]") + suffix
        base = base["c"][0]
    if base["k"] == "tuple":
        comps = [abi_item_of(c, f"c{i}") for i, c in enumerate(base["c"])]
        return {"name": name, "type": "tuple" + suffix, "internalType": "struct S" + suffix, "components": comps}
    return {"name": name, "type": elem_type_str(base) + suffix, "internalType": elem_type_str(base) + suffix}


def function_item(root: dict, fname: str = "f", unnamed: bool = False) -> dict:
    # (Solidity allows unnamed parameters: the ABI item then has "name": "")
    inputs = [abi_item_of(c, "" if unnamed else f"p{i}") for i, c in enumerate(root["c"])]
    return {"type": "function", "name": fname, "inputs": inputs, "outputs": [], "stateMutability": "nonpayable"}


@dataclass
class DynInst:
    """One allocated dynamic-length node, in pre-order (= the order of halmos' dyn_params)."""

    name: str  # the name halmos looks up in --array-lengths
    kind: str  # "darr" | "bytes" | "string"
    cands: list[int]
    overridden: bool
    path: tuple  # child indices (1-based) from the root tuple


@dataclass
class LeafInst:
    name: str
    typ: str  # elementary type string
    path: tuple
    kind: str


def allocate(root: dict, dal: list[int], dbl: list[int], ov: list[list[int]], unnamed: bool = False):
    """Allocation tree (maximal candidate of every dynamic node), the dynamic instances and the leaves,
    all in pre-order.  The j-th dynamic instance takes ov[j] when that list exists and is non-empty
    (given to halmos through --array-lengths <name>=...), the default list of its kind otherwise."""
    dyn: list[DynInst] = []
    leaves: list[LeafInst] = []

    def cands_for(kind: str) -> tuple[list[int], bool]:
        j = len(dyn)
        if j < len(ov) and ov[j]:
            return list(ov[j]), True
        return (list(dal) if kind == "darr" else list(dbl)), False

    def go(t: dict, name: str, path: tuple) -> dict:
        k = t["k"]
        if k in STATIC_KINDS:
            leaves.append(LeafInst(name, elem_type_str(t), path, k))
            return {"m": 0, "n": 0, "c": []}
        if k in BYTES_KINDS:
            cs, o = cands_for(k)
            dyn.append(DynInst(name, k, cs, o, path))
            leaves.append(LeafInst(name, k, path, k))
            return {"m": max(cs), "n": max(cs), "c": []}
        if k == "darr":
            cs, o = cands_for(k)
            dyn.append(DynInst(name, k, cs, o, path))
            m = max(cs)
            return {"m": m, "n": m, "c": [go(t["c"][0], f"{name}[{i}]", path + (i + 1,)) for i in range(m)]}
        if k == "farr":
            m = t["n"]
            return {"m": m, "n": m, "c": [go(t["c"][0], f"{name}[{i}]", path + (i + 1,)) for i in range(m)]}
        if k == "tuple":
            prefix = f"{name}." if name else ""
            kids = []
            for i, c in enumerate(t["c"]):
                nm = ("" if unnamed else f"p{i}") if not path and not name else f"c{i}"
                kids.append(go(c, f"{prefix}{nm}", path + (i + 1,)))
            return {"m": len(kids), "n": len(kids), "c": kids}
        raise MachineryError(f"unknown type kind {k}")

    amax = go(root, "", ())
    return amax, dyn, leaves


def config_flags(dal, dbl, dyn: list[DynInst]) -> list[str]:
    flags = ["--default-array-lengths", ",".join(map(str, dal)), "--default-bytes-lengths", ",".join(map(str, dbl))]
    ovs = [d for d in dyn if d.overridden]

    def one(d):  # both syntaxes of --array-lengths: name={a,b} and name=a
        if len(d.cands) == 1:
            return f"{d.name}={d.cands[0]}"
        return f"{d.name}={{{','.join(map(str, d.cands))}}}"

    if ovs:
        flags += ["--array-lengths", ",".join(one(d) for d in ovs)]
    return flags


# ---------------------------------------------------------------------------------------------
# taking a symbolic ByteVec apart


@dataclass(frozen=True)
class SymByte:
    sym: str  # symbol name
    idx: int  # byte index inside the symbol, 0 = most significant
    width: int  # bytes of the symbol


def term_bytes(term) -> list:
    """Per-byte description of a bit-vector term built from constants, symbols, byte-aligned Extract
    and Concat: each byte is an int (constant) or a SymByte.  Anything else raises Opaque."""
    if isinstance(term, int):
        raise MachineryError("term_bytes needs a sized term")
    if isinstance(term, bytes):
        return list(term)
    if hasattr(term, "as_z3"):
        term = term.as_z3()
    if z3.is_bv_value(term):
        n = term.size() // 8
        return list(term.as_long().to_bytes(n, "big"))
    k = term.decl().kind()
    if z3.is_const(term) and k == z3.Z3_OP_UNINTERPRETED:
        if term.size() % 8:
            raise Opaque(f"symbol {term} of {term.size()} bits")
        w = term.size() // 8
        return [SymByte(term.decl().name(), i, w) for i in range(w)]
    if k == z3.Z3_OP_EXTRACT:
        hi, lo = term.params()
        if (hi + 1) % 8 or lo % 8:
            raise Opaque(f"unaligned extract {term}")
        inner = term_bytes(term.arg(0))
        n = len(inner)
        return inner[n - (hi + 1) // 8 : n - lo // 8]
    if k == z3.Z3_OP_CONCAT:
        out = []
        for j in range(term.num_args()):
            out += term_bytes(term.arg(j))
        return out
    if k == z3.Z3_OP_ZERO_EXT:
        pad = term.params()[0]
        if pad % 8:
            raise Opaque(f"unaligned zero_ext {term}")
        return [0] * (pad // 8) + term_bytes(term.arg(0))
    raise Opaque(f"opaque term {term.decl().name()}")


class Opaque(Exception):
    pass


def word_terms(cd, start: int = 4) -> list:
    """The argument words exactly as CALLDATALOAD would read them (ByteVec.get_word)."""
    n = len(cd)
    if (n - start) % 32:
        return None
    out = []
    for off in range(start, n, 32):
        w = cd.get_word(off)
        if hasattr(w, "as_z3"):
            w = w.as_z3()
        out.append(w)
    return out


def describe(words: list) -> list:
    desc = []
    for w in words:
        if isinstance(w, int):
            desc += list(w.to_bytes(32, "big"))
        elif isinstance(w, bytes):
            desc += list(w)
        else:
            desc += term_bytes(w)
    return desc


# ---------------------------------------------------------------------------------------------
# one conformance case


@dataclass
class Case:
    id: int
    gen: dict  # the record printed by AbiGen
    root: dict
    sig: str
    fsig: str = ""
    selector: bytes = b""
    flags: list = field(default_factory=list)
    amax: dict = None
    dyn: list = field(default_factory=list)
    leaves: list = field(default_factory=list)
    combos: list = field(default_factory=list)  # tuples of chosen lengths, one per dynamic instance
    ncombos_total: int = 0
    valc: list = field(default_factory=list)
    genc: list = field(default_factory=list)
    # observed
    error: str | None = None
    desc: list = None  # per-byte description of the arguments
    tpl: bytes = b""
    symvals: dict = field(default_factory=dict)  # symbol -> int value used in tpl
    sympos: dict = field(default_factory=dict)  # symbol -> (first position, width)
    szsyms: list = field(default_factory=list)  # names of the size symbols (dyn_params order)
    dyn_params: list = field(default_factory=list)  # (name, choices, symbol name, symbol bits)
    problems: list = field(default_factory=list)  # (key, text) found on the Python side
    cd: object = None
    halmos_dyn_params: object = None
    args: object = None

    def key(self) -> str:
        return f"{self.sig}|dal={self.gen['dal']}|dbl={self.gen['dbl']}|ov={self.gen['ov']}"

    def replay(self) -> dict:
        return {"signature": self.fsig, "flags": self.flags, "gen": self.gen,
                "dyn": [(d.name, d.cands) for d in self.dyn]}


def choose_combos(dyn: list[DynInst], cap: int, rnd: random.Random):
    lists = [sorted(set(d.cands)) for d in dyn]
    total = 1
    for l in lists:
        total *= len(l)
    if total <= cap:
        return [tuple(c) for c in itertools.product(*lists)], total
    picked = {tuple(max(l) for l in lists), tuple(min(l) for l in lists)}
    # every candidate of every instance occurs at least once
    for i, l in enumerate(lists):
        for v in l:
            c = [rnd.choice(x) for x in lists]
            c[i] = v
            picked.add(tuple(c))
    while len(picked) < cap:
        picked.add(tuple(rnd.choice(x) for x in lists))
    return sorted(picked)[: max(cap, len(picked))], total


def build_case(cid: int, gen: dict, *, cap: int, rnd: random.Random, all_values: bool, ngen: int,
               mutate=None) -> Case:
    root = gen["t"]
    c = Case(id=cid, gen=gen, root=root, sig=gen["sig"])
    item = function_item(root, unnamed=bool(gen.get("unnamed")))
    c.fsig = "f" + gen["sig"]
    got = str_abi(item)
    if got != c.fsig:
        c.problems.append(("str_abi", f"str_abi gives {got!r}, the specification's signature string is {c.fsig!r}"))
    c.selector = keccak(c.fsig.encode())[:4]
    c.amax, c.dyn, c.leaves = allocate(root, gen["dal"], gen["dbl"], gen["ov"], unnamed=bool(gen.get("unnamed")))
    # "noflags": the candidate lists of the record are halmos' documented defaults, no flag is passed
    c.flags = [] if gen.get("noflags") else config_flags(gen["dal"], gen["dbl"], c.dyn)
    args = hrun.mk_args(*c.flags)
    c.args = args
    abi = {got: item}
    try:
        cd, dps = mk_calldata(abi, FunctionInfo("C", "f", got, c.selector.hex()), args)
    except Exception as e:  # noqa: BLE001
        c.error = f"{type(e).__name__}: {e}"
        c.problems.append(("raises", f"mk_calldata raised {c.error} on a supported signature"))
        return c
    if mutate:
        cd, dps = mutate(c, cd, dps)
    c.cd, c.halmos_dyn_params = cd, dps
    analyse(c, cd, dps, rnd)
    if c.problems and c.desc is None:
        return c
    c.combos, c.ncombos_total = choose_combos(c.dyn, cap, rnd)
    n = len(c.combos)
    maxc = tuple(max(d.cands) for d in c.dyn)
    imax = c.combos.index(maxc) + 1 if maxc in c.combos else 1
    c.valc = list(range(1, n + 1)) if all_values else sorted({imax, rnd.randrange(n) + 1})
    if ngen < 0:
        c.genc = list(range(1, n + 1))
    elif ngen == 0:
        c.genc = []
    else:
        c.genc = sorted({imax} | {rnd.randrange(n) + 1 for _ in range(ngen - 1)})
    return c


def analyse(c: Case, cd, dps, rnd: random.Random) -> None:
    """Structural analysis of the returned (ByteVec, dyn_params)."""
    n = len(cd)
    sel = cd.slice(0, 4).unwrap() if n >= 4 else None
    if not isinstance(sel, bytes) or sel != c.selector:
        c.problems.append(("selector", f"calldata does not start with the selector {c.selector.hex()}"))
        return
    words = word_terms(cd)
    if words is None:
        c.problems.append(("size", f"argument size {n - 4} is not a multiple of 32"))
        return
    try:
        desc = describe(words)
    except Opaque as e:
        # e.g. a sign-extended narrow symbol: possibly a valid design, but this harness cannot judge it
        raise MachineryError(f"calldata of {c.fsig} contains a term that is not a constant/symbol slice: {e}") from e
    c.desc = desc
    # symbols: every byte of every symbol exactly once, contiguous, in order
    occ: dict[str, list] = {}
    for pos, d in enumerate(desc):
        if isinstance(d, SymByte):
            occ.setdefault(d.sym, []).append((pos, d))
    for s, lst in occ.items():
        p0, d0 = lst[0]
        ok = len(lst) == d0.width and all(p == p0 + i and d.idx == i for i, (p, d) in enumerate(lst))
        if not ok:
            c.problems.append(("symbol-shared", f"symbol {s} does not occur exactly once and contiguously "
                               f"(its bytes are shared between positions {[p for p, _ in lst][:6]}...)"))
        c.sympos[s] = (p0, d0.width)
    # dyn_params as returned
    c.dyn_params = []
    for d in dps:
        sym = d.size_symbol
        if hasattr(sym, "as_z3"):
            sym = sym.as_z3()
        c.dyn_params.append((d.name, list(d.size_choices), sym.decl().name(), sym.size()))
    c.szsyms = [x[2] for x in c.dyn_params]
    exp = [(d.name, d.cands) for d in c.dyn]
    got = [(x[0], x[1]) for x in c.dyn_params]
    if exp != got:
        c.problems.append(("dyn-params", f"dyn_params {got} differ from the configured candidates {exp}"))
    for name, _ch, s, bits in c.dyn_params:
        if bits != 256 or s not in c.sympos:
            c.problems.append(("size-symbol", f"size symbol {s} of {name} ({bits} bits) does not occur in the calldata"))
        elif c.sympos[s][0] % 32 or c.sympos[s][1] != 32:
            c.problems.append(("size-symbol", f"size symbol {s} is not one aligned word"))
    if len(set(c.szsyms)) != len(c.szsyms):
        c.problems.append(("size-symbol", "a size symbol is used for two dynamic parameters"))
    if any(k in ("dyn-params", "size-symbol") for k, _ in c.problems):
        c.desc = None
        return
    # instantiate with zeval: leaf symbols := recognisable random values, size symbols := maximal candidate
    env = {}
    for s, (_p, w) in c.sympos.items():
        env[s] = rnd.getrandbits(8 * w) | (1 << (8 * w - 1)) | 1  # top and bottom bits set: no accidental padding
    for (name, ch, s, _b) in c.dyn_params:
        env[s] = max(ch)
    c.symvals = env
    ev = zeval.Evaluator(env)
    out = bytearray()
    for w in words:
        out += ev.eval(w).to_bytes(32, "big")
    c.tpl = bytes(out)
    # cross-check of the structural description against the evaluation (machinery consistency)
    for pos, d in enumerate(desc):
        want = d if isinstance(d, int) else (env[d.sym] >> (8 * (d.width - 1 - d.idx))) & 0xFF
        if want != c.tpl[pos]:
            raise MachineryError(f"byte description and zeval disagree at {pos} of {c.fsig}")


def tlc_case(c: Case) -> dict:
    return {
        "id": c.id,
        "t": c.root,
        "tpl": list(c.tpl),
        "amax": c.amax,
        "szpos": [c.sympos[s][0] for s in c.szsyms],
        "combos": [list(x) for x in c.combos],
        "valc": c.valc,
        "genc": c.genc,
    }


def run_cases(cases: list[Case], work, rnd: random.Random, chk=None, coverage=False):
    """One TLC run over all cases; returns {id: {"layout": rec, "combos": {ci: rec}}}."""
    sendable = [c for c in cases if c.desc is not None and c.tpl is not None and not c.error]
    f = work / f"abirun-{rnd.randrange(10**9)}.json"
    f.write_text(json.dumps({"rnd": [rnd.randrange(256) for _ in range(251)], "cases": [tlc_case(c) for c in sendable]}))
    r = run_tlc("AbiRun", "AbiRun.cfg", work=work, env={"ABIRUN": str(f)}, coverage=coverage, heap="12g")
    if not r.ok:
        raise MachineryError(f"AbiRun failed: {r.violated}\n{r.stdout[-3000:]}")
    if chk is not None:
        chk.add_tlc(r)
    out: dict = {}
    for rec in r.records:
        if not isinstance(rec, dict) or "kind" not in rec:
            continue
        e = out.setdefault(rec["id"], {"layout": None, "combos": {}})
        if rec["kind"] == "layout":
            e["layout"] = rec
        else:
            e["combos"][rec["ci"]] = rec
    for c in sendable:
        e = out.get(c.id)
        if e is None or e["layout"] is None or len(e["combos"]) != len(c.combos):
            raise MachineryError(f"AbiRun printed incomplete records for case {c.id} {c.fsig}")
    f.unlink(missing_ok=True)
    return out, r


# ---------------------------------------------------------------------------------------------
# judging


def leaf_by_path(c: Case) -> dict:
    return {l.path: l for l in c.leaves}


def judge_case(c: Case, res: dict) -> list:
    """Returns [(key, text, extra)] for every disagreement of halmos with the specification."""
    bad = [(k, t, {}) for k, t in c.problems]
    if c.desc is None or c.error:
        return bad
    lay = res["layout"]
    if not lay["allocok"]:
        raise MachineryError(f"allocation of {c.fsig} rejected by the specification")
    if lay["ndyn"] != len(c.dyn):
        raise MachineryError(f"dynamic node count differs for {c.fsig}")
    desc = c.desc
    leaves = leaf_by_path(c)
    szset = set(c.szsyms)
    szpos = {c.sympos[s][0]: i for i, s in enumerate(c.szsyms)}
    seen_cands = [set() for _ in c.dyn]
    for ci in sorted(res["combos"]):
        r = res["combos"][ci]
        combo = c.combos[ci - 1]
        tag = f"lengths={dict(zip([d.name for d in c.dyn], combo))}"
        ex = {"combo": list(combo)}
        if not r["ok"]:
            bad.append(("decode", f"{tag}: Abi!Decode rejects the calldata: {r['err']} at path {r['errpath']}", ex))
            continue
        if not r["inside"]:
            bad.append(("bounds", f"{tag}: an offset/length leaves the calldata or points backwards", ex))
        if not r["disjoint"]:
            bad.append(("overlap", f"{tag}: decoded ranges overlap", ex))
        if not r["shapeok"]:
            bad.append(("counts", f"{tag}: decoded element counts / byte lengths differ from the chosen candidates", ex))
            continue
        used: dict[str, int] = {}
        vals = r["vals"]
        li = 0
        for k, lo, hi, _tg, path in r["spans"]:
            if k == "off":
                if not all(isinstance(d, int) for d in desc[lo:hi]):
                    bad.append(("offset-symbolic", f"{tag}: offset word at {lo} is not concrete", ex))
                continue
            if k == "len":
                if lo not in szpos:
                    bad.append(("length-not-size-symbol", f"{tag}: the length word at {lo} is not a size symbol", ex))
                continue
            # leaf
            val = vals[li] if vals else None
            li += 1
            if hi == lo:
                continue
            leaf = leaves.get(tuple(path))
            if leaf is None:
                raise MachineryError(f"decoded leaf path {path} unknown in {c.fsig}")
            ds = desc[lo:hi]
            why, syms = leaf_general(leaf, ds, szset)
            if why:
                bad.append((why[0], f"{tag}: leaf {leaf.name}:{leaf.typ} at [{lo},{hi}): {why[1]}", ex))
                continue
            for s in syms:
                if s in used:
                    bad.append(("leaf-shared", f"{tag}: symbol {s} is decoded as two leaves ({used[s]} and {lo})", ex))
                used[s] = lo
            if val is not None:
                want = bytes(d if isinstance(d, int) else (c.symvals[d.sym] >> (8 * (d.width - 1 - d.idx))) & 0xFF for d in ds)
                if bytes(val) != want:
                    bad.append(("leaf-value", f"{tag}: decoded leaf at {lo} is not the value given to its symbol", ex))
        for i, v in enumerate(combo):
            seen_cands[i].add(v)
        # generality: the TLC-encoded tuple must be an instance of the symbolic calldata
        if r["hasB"]:
            if not r["Bok"]:
                raise MachineryError(f"specification failure: EncodeGen/Decode disagree for {c.fsig} {combo}")
            why = unify(c, r["B"], combo)
            if why:
                bad.append(("not-general", f"{tag}: an ABI encoding of an argument tuple with these lengths is not "
                            f"an instance of the symbolic calldata: {why}", ex))
    # names: the symbol decoded at a path carries the name of that path (max combination only)
    bad += judge_names(c, res)
    if c.ncombos_total == len(c.combos):
        for i, d in enumerate(c.dyn):
            if seen_cands[i] != set(d.cands) and not any(k in ("decode", "counts") for k, _, _ in bad):
                raise MachineryError(f"candidate of {d.name} not covered in {c.fsig}")
    return bad


def value_positions(leaf: LeafInst) -> range:
    """Byte positions of a 32-byte slot that carry the value of a static leaf (the others are padding)."""
    t = leaf.typ
    if leaf.kind == "uint":
        return range(32 - int(t[4:]) // 8, 32)
    if leaf.kind == "int":
        return range(32 - int(t[3:]) // 8, 32)
    if leaf.kind == "address":
        return range(12, 32)
    if leaf.kind == "bool":
        return range(31, 32)
    if leaf.kind == "fbytes":
        return range(0, int(t[5:]))
    raise MachineryError(f"not a static leaf: {leaf}")


def leaf_general(leaf: LeafInst, ds: list, szset: set):
    """Is this decoded leaf an unconstrained symbolic value of its type?  Returns (None | (key, text), symbols).

    static leaf: every value byte is a byte of a leaf symbol; a padding byte is a free symbol byte or, for
    the zero-padded types, the constant 0 (a narrower zero-extended symbol); intN padding must be free.
    bytes/string: the content is a prefix of one leaf symbol."""
    syms = []
    for d in ds:
        if isinstance(d, SymByte):
            if d.sym in szset:
                return ("leaf-is-size-symbol", f"contains the size symbol {d.sym}"), []
            if d.sym not in syms:
                syms.append(d.sym)
    if leaf.kind in BYTES_KINDS:
        if not all(isinstance(d, SymByte) for d in ds):
            return ("leaf-constrained", "the content contains constants"), []
        if any(d.sym != ds[0].sym or d.idx != i for i, d in enumerate(ds)):
            return ("leaf-mixed", "the content is not a prefix of one symbol"), []
        return None, syms
    vp = value_positions(leaf)
    for i, d in enumerate(ds):
        if i in vp:
            if not isinstance(d, SymByte):
                return ("leaf-constrained", f"value byte {i} is the constant {d:#x}"), []
        elif isinstance(d, int) and (d != 0 or leaf.kind == "int"):
            return ("leaf-constrained", f"padding byte {i} is the constant {d:#x}"), []
    vsyms = []
    for i in vp:
        if ds[i].sym not in vsyms:
            vsyms.append(ds[i].sym)
    return None, vsyms


def judge_names(c: Case, res: dict) -> list:
    """In the all-maximal combination every leaf symbol must be decoded exactly once, and it must be
    the symbol halmos named after that position (p_<name>_<type>_...)."""
    bad = []
    maxc = tuple(max(d.cands) for d in c.dyn)
    if maxc not in c.combos:
        return bad
    r = res["combos"][c.combos.index(maxc) + 1]
    if not r["ok"] or not r["shapeok"]:
        return bad
    leafspans = [(lo, hi, tuple(path)) for k, lo, hi, _, path in r["spans"] if k == "leaf"]
    if len(leafspans) != len(c.leaves) or [p for _, _, p in leafspans] != [l.path for l in c.leaves]:
        raise MachineryError(f"decoded leaf paths differ from the type's leaves for {c.fsig}")
    szset = set(c.szsyms)
    decoded = set()
    for (lo, hi, _p), leaf in zip(leafspans, c.leaves):
        if hi == lo:
            continue
        why, syms = leaf_general(leaf, c.desc[lo:hi], szset)
        if why:
            continue
        decoded.update(syms)
        want = f"p_{leaf.name}_{leaf.typ}_"
        for s in syms:
            if not s.startswith(want):
                bad.append(("leaf-name", f"the leaf {leaf.name}:{leaf.typ} is the symbol {s}", {}))
    leafsyms = {s for s in c.sympos if s not in szset}
    missing = sorted(leafsyms - decoded)
    if missing and not any(k.startswith("leaf") for k, _, _ in bad):
        bad.append(("leaf-unused", f"symbols never decoded as a leaf with all lengths maximal: {missing[:4]}", {}))
    return bad


def unify(c: Case, B: list, combo) -> str | None:
    """Is the concrete byte string B an instance of the symbolic calldata?  Returns None or the reason."""
    desc = c.desc
    if len(B) != len(desc):
        return f"length {len(desc)} vs {len(B)}"
    sigma: dict[tuple, int] = {}
    for pos, (d, b) in enumerate(zip(desc, B)):
        if isinstance(d, int):
            if d != b:
                return f"constant byte {d:#x} at {pos} where the encoding has {b:#x}"
        else:
            key = (d.sym, d.idx)
            if sigma.setdefault(key, b) != b:
                return f"symbol byte {key} needs two values"
    for i, s in enumerate(c.szsyms):
        v = 0
        for j in range(32):
            v = (v << 8) | sigma[(s, j)]
        if v != combo[i]:
            return f"size symbol {s} would be {v}, chosen {combo[i]}"
        if v not in c.dyn[i].cands:
            return f"size symbol {s} = {v} outside its candidates"
    return None


# ---------------------------------------------------------------------------------------------
# signature generation


def generate(cfg: str, work, salt: int, stride: int, off: int, chk=None) -> list[dict]:
    f = work / "abigen.json"
    f.write_text(json.dumps({"salt": salt, "stride": stride, "off": off}))
    r = run_tlc("AbiGen", cfg, work=work, env={"ABIGEN": str(f)})
    if not r.ok:
        raise MachineryError(f"AbiGen failed: {r.violated}\n{r.stdout[-2000:]}")
    if chk is not None:
        chk.add_tlc(r)
    recs = [x for x in r.records if isinstance(x, dict) and "sig" in x]
    recs.sort(key=lambda x: (x["sig"], x["cc"]))
    return recs
