"""E1 - reference-machine engine.

programs x inputs  --TLC/Evm.tla-->  terminal records
programs           --halmos SEVM-->  symbolic paths
each input is then matched against the paths by evaluating the path conditions (zeval) and the
reported end state of every covering path is compared with the TLC record.
"""

from __future__ import annotations

import json
import time
from dataclasses import dataclass, field

import z3

from . import zeval
from .common import Check, MachineryError, run_tlc, workdir, cleanup
from .hrun import CREATE_BASE, HRun, PathRec, Prog, Sym, run as halmos_run
from .symstore import MASK as SYMMASK

W256 = (1 << 256) - 1


def word(n: int) -> list[int]:
    return list((n & W256).to_bytes(32, "big"))


def unword(bs) -> int:
    return int.from_bytes(bytes(bs), "big")


# spec result kind -> halmos error class name
KIND2ERR = {
    "Stop": None,
    "Return": None,
    "Revert": "Revert",
    "InvalidOpcode": "InvalidOpcode",
    "StackUnderflow": "StackUnderflowError",
    "StackOverflow": "StackOverflowError",
    "InvalidJump": "InvalidJumpDestError",
    "OutOfGas": "OutOfGasError",
    "OutOfBounds": "OutOfBoundsRead",
    "StaticWrite": "WriteInStaticContext",
    "Fail": "FailCheatcode",
}

DEFAULT_ENV = {
    "coinbase": 0,
    "timestamp": 1,
    "number": 1,
    "prevrandao": 0,
    "gaslimit": 2**63 - 1,
    "chainid": 31337,
    "basefee": 0,
}
HEVM = 0x7109709ECFA91A80626FF3989D68F67F5B1DD12D
SVM = 0xF3993A62377BCD56AE39D773740A5390411E8BC9
CONSOLE = 0x000000000000000000636F6E736F6C652E6C6F67


def concretize(prog: Prog, inp: dict[str, int]):
    """The concrete message obtained from prog under the assignment inp."""

    def val(x):
        return inp[x.name] if isinstance(x, Sym) else x

    data = b""
    for item in prog.calldata:
        if isinstance(item, Sym):
            data += inp[item.name].to_bytes(item.bits // 8, "big")
        else:
            data += item
    return {
        "data": data,
        "caller": val(prog.caller),
        "origin": val(prog.origin),
        "value": val(prog.value),
        "balances": {a: val(b) for a, b in prog.balances.items()},
    }


def mk_tx(to: int, caller: int, origin: int, value: int, data: bytes, *, static=False, create=False, transfer=False) -> dict:
    return {
        "to": word(to),
        "caller": word(caller),
        "origin": word(origin),
        "value": word(value),
        "data": list(data),
        "static": static,
        "create": create,
        "transfer": transfer,
    }


def mk_case(cid: int, accounts: dict, txs: list[dict], *, storage=None, balances=None, env=None, create_base=CREATE_BASE,
            oracle=None, assert_mode: str = "stop") -> dict:
    """A case for EvmRun.tla: a world and a sequence of messages."""
    e = dict(DEFAULT_ENV)
    if env:
        e.update(env)
    return {
        "id": cid,
        "code": [{"a": word(a), "c": list(code)} for a, code in sorted(accounts.items())],
        "storage": [{"a": word(a), "k": word(k), "v": word(v)} for (a, k), v in sorted((storage or {}).items())],
        "balance": [{"a": word(a), "v": word(v)} for a, v in sorted((balances or {}).items())],
        "txs": txs,
        "env": env_json(e, create_base, oracle, assert_mode),
    }


def env_json(e: dict, create_base: int, oracle=None, assert_mode: str = "stop", symstore=()) -> dict:
    """oracle: values returned by successive svm.create*/vm.random* calls (ints = 32-byte words, or bytes)."""
    orc = []
    for o in oracle or []:
        orc.append(list(o) if isinstance(o, bytes | bytearray) else word(o))
    return {**{k: word(v) for k, v in e.items()}, "createBase": word(create_base),
            "opaque": [word(CONSOLE)], "cheatAddrs": [word(HEVM), word(SVM)],
            "oracle": orc, "assertMode": assert_mode,
            "symstore": [word(a) for a in sorted(symstore)], "symmask": word(SYMMASK)}


def to_case(cid: int, prog: Prog, inp: dict[str, int], *, transfer: bool = False, env: dict | None = None, oracle=None,
            assert_mode: str = "stop") -> dict:
    c = concretize(prog, inp)
    e = dict(DEFAULT_ENV)
    if env:
        e.update(env)
    accounts = dict(prog.accounts)
    return {
        "id": cid,
        "code": [{"a": word(a), "c": list(code)} for a, code in sorted(accounts.items())],
        "storage": [{"a": word(a), "k": word(k), "v": word(v)} for (a, k), v in sorted(prog.storage.items())],
        "balance": [{"a": word(a), "v": word(v)} for a, v in sorted(c["balances"].items())],
        "txs": [
            mk_tx(prog.target, c["caller"], c["origin"], c["value"], c["data"], static=prog.static, create=prog.create,
                  transfer=transfer)
        ],
        "env": env_json(e, prog.meta.get("create_base", CREATE_BASE), oracle, assert_mode, symstore=prog.symstore),
    }


def run_spec(cases: list[dict], work, *, max_steps: int = 20000, workers="auto", timeout: int = 3600):
    """Execute all cases on Evm.tla; returns ({id: record}, TLCResult)."""
    if not cases:
        raise MachineryError("no cases")
    f = work / f"cases-{int(time.time()*1000)%100000000}.json"
    f.write_text(json.dumps(cases))
    cf = work / "cheats.json"
    if not cf.exists():
        from .cheats import DESCRIPTORS

        cf.write_text(json.dumps([{k: d[k] for k in ("sel", "kind", "op", "typ", "arr", "n")} for d in DESCRIPTORS]))
    r = run_tlc("EvmRun", "EvmRun.cfg", work=work, env={"CASES": str(f), "CHEATS": str(cf)}, workers=workers, timeout=timeout,
                expect_violation=True)
    if r.violated:
        # an invariant of the specification failed on a behaviour: a defect of the spec, not of halmos
        raise MachineryError(f"Evm.tla invariant violated: {r.violated}\n{r.stdout[-4000:]}")
    recs = {rec["id"]: rec for rec in r.records}
    f.unlink()
    return recs, r


# ---------------------------------------------------------------------------------------------
# evaluation of halmos paths at an input


@dataclass
class Covering:
    path: PathRec
    index: int
    ev: zeval.Evaluator


@dataclass
class Match:
    covering: list[Covering] = field(default_factory=list)
    unevaluable: list[tuple[int, str]] = field(default_factory=list)


def input_env(prog: Prog, inp: dict[str, int]) -> dict:
    return dict(inp)


def evaluator_for(prog: Prog, env: dict) -> "zeval.Evaluator":
    ev = zeval.Evaluator(env)
    # accounts with symbolic storage: from the start, or enabled by the program's first instructions
    ss = set(getattr(prog, "symstore", ())) | set(prog.meta.get("symstore_enabled", ()))
    if ss:
        from .symstore import make_storage0

        ev.interp.storage0 = make_storage0(ss)
    return ev


def match_paths(prog: Prog, hr: HRun, inp: dict[str, int], extra_env: dict | None = None) -> Match:
    m = Match()
    for idx, p in enumerate(hr.paths):
        env = input_env(prog, inp)
        if extra_env:
            env.update(extra_env)
        ev = evaluator_for(prog, env)
        ok = True
        try:
            for c in p.conditions:
                if not ev.add_condition(c):
                    ok = False
                    break
        except (zeval.Unbound, zeval.Unsupported) as e:
            m.unevaluable.append((idx, f"{type(e).__name__}: {e}"))
            continue
        if ok:
            m.covering.append(Covering(p, idx, ev))
    return m


def eval_bytes(ev: zeval.Evaluator, data, length: int | None = None) -> bytes:
    if data is None:
        return b""
    if isinstance(data, bytes):
        return data
    if isinstance(data, int):
        raise MachineryError("int data without size")
    v = ev.eval(data)
    return v.to_bytes(data.size() // 8, "big")


def eval_word(ev: zeval.Evaluator, w) -> int:
    if isinstance(w, int):
        return w
    if hasattr(w, "as_z3"):
        w = w.as_z3()
    v = ev.eval(w)
    if isinstance(v, bool):
        return int(v)
    return v


def compare_end_state(cov: Covering, rec: dict, initial_addrs: set | None = None) -> str | None:
    """None if the path's reported end state equals the reference record, else the failing clause."""
    p, ev = cov.path, cov.ev
    want_err = KIND2ERR.get(rec["kind"], "?")
    ok = rec["ok"]
    if ok != (p.error is None):
        return f"status: reference {'success' if ok else rec['kind']}, halmos {p.error or 'success'}"
    if p.error != want_err:
        return f"error kind: reference {rec['kind']}, halmos {p.error}"
    got = eval_bytes(ev, p.data)
    want = bytes(rec["data"])
    if got != want:
        return f"output data: reference 0x{want.hex()}, halmos 0x{got.hex()}"
    if ok:
        if len(p.logs) != len(rec["logs"]):
            return f"logs: reference {len(rec['logs'])}, halmos {len(p.logs)}"
        fwd, bwd = {}, {}
        for i, ((a, topics, d), lr) in enumerate(zip(p.logs, rec["logs"])):
            ha, ra = eval_word(ev, a), unword(lr["addr"])
            if ha != ra:
                # accounts created during the execution are compared up to the bijection given by
                # creation (halmos numbers CREATE2 addresses, the EVM hashes: assumption A3)
                if initial_addrs is None or ha in initial_addrs or ra in initial_addrs:
                    return f"log {i} address"
                if fwd.setdefault(ra, ha) != ha or bwd.setdefault(ha, ra) != ra:
                    return f"log {i} address (created-account renaming is not a bijection)"
            if [eval_word(ev, t) for t in topics] != [unword(t) for t in lr["topics"]]:
                return f"log {i} topics"
            if eval_bytes(ev, d) != bytes(lr["data"]):
                return f"log {i} data"
    return None
