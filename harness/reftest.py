"""Reference executions of Foundry-style tests on Evm.tla: deploy; setUp(); test(args)."""

from __future__ import annotations

from . import e1
from .artifacts import Contract, selector

FOUNDRY_TEST = 0x7FA9385BE102AC3EAC297483DD6233D62B3E1496
FOUNDRY_CALLER = 0x1804C8AB1F12E6BBF3894D4083F33E07309D1F38
TEST_BALANCE = 0xFFFFFFFFFFFFFFFFFFFFFFFF
PANIC_SEL = bytes.fromhex("4e487b71")


def encode_static(sig: str, args: tuple) -> bytes:
    return bytes.fromhex(selector(sig)) + b"".join((a % (1 << 256)).to_bytes(32, "big") for a in args)


def test_case(cid: int, test: Contract, sig: str, calldata: bytes, *, others: dict | None = None, has_setup: bool = True,
              extra_txs: list | None = None, env: dict | None = None) -> dict:
    """deploy the test contract at FOUNDRY_TEST, run setUp(), [extra transactions], then the test call."""
    txs = [e1.mk_tx(FOUNDRY_TEST, FOUNDRY_CALLER, FOUNDRY_CALLER, 0, test.creation(), create=True)]
    if has_setup:
        txs.append(e1.mk_tx(FOUNDRY_TEST, FOUNDRY_CALLER, FOUNDRY_CALLER, 0, bytes.fromhex(selector("setUp()"))))
    txs += extra_txs or []
    txs.append(e1.mk_tx(FOUNDRY_TEST, FOUNDRY_CALLER, FOUNDRY_CALLER, 0, calldata))
    return e1.mk_case(cid, others or {}, txs, balances={FOUNDRY_TEST: TEST_BALANCE}, env=env)


def panic_code(rec: dict) -> int | None:
    """The Panic(uint256) code carried by a reverting record, if any."""
    if rec["ok"] or rec["kind"] != "Revert":
        return None
    d = bytes(rec["data"])
    if len(d) != 36 or d[:4] != PANIC_SEL:
        return None
    return int.from_bytes(d[4:], "big")


def is_failure(rec: dict, codes: set[int] | None) -> bool:
    """Does the reference outcome count as an assertion failure under the configured Panic codes
    (None/empty = any code) or the global failure flag?"""
    if rec.get("kind") == "Fail" or rec.get("failed"):
        return True
    c = panic_code(rec)
    if c is None:
        return False
    return not codes or c in codes
