"""Programs that call cheatcodes (E1 corpora for C13 and C14).

Every program builds the cheatcode call data in memory and CALLs the cheat address; operands come
from calldata words so that they are symbolic for halmos.
"""

from __future__ import annotations

import random

from .asm import assemble
from .cheats import BY_SIG, HEVM, SVM, selector
from .hrun import CALLER, TARGET, Prog, Sym
from .progs import M256

GAS = 0xFFFFFF
BUF = 0x400  # call data buffer
RETBUF = 0x300


def mstore_const(off: int, val: int) -> list:
    return [("PUSH", val), ("PUSH", off), "MSTORE"]


def mstore_in(off: int, k: int) -> list:
    return [("PUSH", 32 * k), "CALLDATALOAD", ("PUSH", off), "MSTORE"]


def put_selector(sig: str) -> list:
    return [("PUSHN", 32, int.from_bytes(selector(sig), "big") << 224), ("PUSH", BUF), "MSTORE"]


def call_cheat(addr: int, size: int, ret_words: int = 0) -> list:
    """CALL addr with BUF[0:size]; leaves the success flag on the stack."""
    return [("PUSH", 32 * ret_words), ("PUSH", RETBUF), ("PUSH", size), ("PUSH", BUF), ("PUSH", 0), ("PUSHN", 20, addr), ("PUSH", GAS), "CALL"]


def enc_string(off: int, text: bytes) -> tuple[list, int]:
    """Write a dynamic string/bytes value (length + padded data) at memory BUF+4+off; returns (code, size)."""
    code = mstore_const(BUF + 4 + off, len(text))
    padded = text + b"\0" * ((32 - len(text) % 32) % 32)
    for i in range(0, len(padded), 32):
        code += [("PUSHN", 32, int.from_bytes(padded[i : i + 32], "big")), ("PUSH", BUF + 4 + off + 32 + i), "MSTORE"]
    return code, 32 + len(padded)


def assert_call(sig: str, rnd: random.Random):
    """Code that performs one vm.assert* call with symbolic operands; returns (code, meta)."""
    d = BY_SIG[sig]
    params = sig[sig.index("(") + 1 : -1].split(",")
    has_msg = len(params) > (1 if d["op"] in ("True", "False") else 2)
    code = put_selector(sig)
    meta = {"sig": sig}
    msg = b"oops"
    if d["op"] in ("True", "False"):
        code += mstore_in(BUF + 4, 0)
        size = 36
        if has_msg:
            code += mstore_const(BUF + 4 + 32, 0x40)
            c, n = enc_string(0x40, msg)
            code += c
            size = 4 + 0x40 + n
        # (the operand is a word: every non-zero word is true, as for vm.assume and JUMPI)
        meta["domain"] = [0, 1, 2, 0x100, 0xFF00, 2**255, M256 - 1]
        return code + call_cheat(HEVM, size), meta
    if not d["arr"] and d["typ"] not in ("bytes", "string"):
        code += mstore_in(BUF + 4, 0) + mstore_in(BUF + 36, 1)
        size = 68
        if has_msg:
            code += mstore_const(BUF + 4 + 64, 0x60)
            c, n = enc_string(0x60, msg)
            code += c
            size = 4 + 0x60 + n
        if d["typ"] == "bool":
            meta["domain"] = [0, 1]
        elif d["typ"] == "address":
            meta["domain"] = [0, 1, 2**160 - 1, 0xA11CE]
        else:
            meta["domain"] = [0, 1, 2, 2**255 - 1, 2**255, 2**255 + 1, M256 - 1, M256 - 2]
        return code + call_cheat(HEVM, size), meta
    nhead = 3 if has_msg else 2
    head = 32 * nhead
    if d["arr"] and d["typ"] in ("bytes", "string"):
        # bytes[] / string[] operands: elements of 0..32 bytes whose contents are calldata words; the second operand mostly
        # repeats the shape of the first (same element count and lengths - the head words of both are then equal)
        n1 = rnd.choice([0, 1, 2, 2, 3])
        el1 = [(rnd.choice([0, 1, 3, 32]), rnd.randrange(3)) for _ in range(n1)]
        if rnd.random() < 0.7:
            el2 = [(L, k if rnd.random() < 0.5 else rnd.randrange(3)) for L, k in el1]
        else:
            el2 = [(rnd.choice([0, 1, 3, 32]), rnd.randrange(3)) for _ in range(rnd.choice([n1, n1 + 1, max(0, n1 - 1)]))]

        def enc(base_off, elems):
            c = mstore_const(BUF + 4 + base_off, len(elems))
            area, cur = base_off + 32, 32 * len(elems)
            for j, (L, k) in enumerate(elems):
                c += mstore_const(BUF + 4 + area + 32 * j, cur) + mstore_const(BUF + 4 + area + cur, L)
                if L:
                    c += mstore_in(BUF + 4 + area + cur + 32, k)
                cur += 64 if L else 32
            return c, 32 + cur

        off1 = head
        c1, s1 = enc(off1, el1)
        off2 = off1 + s1
        c2, s2 = enc(off2, el2)
        code += mstore_const(BUF + 4, off1) + mstore_const(BUF + 36, off2) + c1 + c2
        end = off2 + s2
        meta.update({"elements1": el1, "elements2": el2})
        meta["domain"] = [0, 1, (0x61 << 248), (0x61 << 248) + 1, (0x616263 << 232), (0x616264 << 232), M256 - 1]
    elif d["arr"]:
        # T[] operands of lengths n1, n2 with elements taken from the calldata words
        n1, n2 = rnd.choice([(0, 0), (1, 1), (2, 2), (3, 3), (2, 2), (0, 1), (1, 2), (2, 1), (3, 2)])
        idx1 = [rnd.randrange(3) for _ in range(n1)]
        idx2 = [(i if rnd.random() < 0.6 else rnd.randrange(3)) for i in idx1[:n2]] + [rnd.randrange(3) for _ in range(max(0, n2 - n1))]
        off1 = head
        off2 = off1 + 32 * (1 + n1)
        code += mstore_const(BUF + 4, off1) + mstore_const(BUF + 36, off2)
        code += mstore_const(BUF + 4 + off1, n1)
        for j, k in enumerate(idx1):
            code += mstore_in(BUF + 4 + off1 + 32 * (1 + j), k)
        code += mstore_const(BUF + 4 + off2, n2)
        for j, k in enumerate(idx2):
            code += mstore_in(BUF + 4 + off2 + 32 * (1 + j), k)
        end = off2 + 32 * (1 + n2)
        meta.update({"n1": n1, "n2": n2, "idx1": idx1, "idx2": idx2})
        meta["domain"] = [0, 1] if d["typ"] == "bool" else [0, 1, 2, M256 - 1]
    else:
        # bytes / string operands: the first n1 (n2) bytes of calldata word 0 (1), n <= 32, or two words
        n1, n2 = rnd.choice([(0, 0), (1, 1), (31, 31), (32, 32), (33, 33), (0, 1), (32, 31), (5, 5), (33, 32)])
        off1 = head
        sz1 = 32 * ((n1 + 31) // 32)
        off2 = off1 + 32 + sz1
        sz2 = 32 * ((n2 + 31) // 32)
        code += mstore_const(BUF + 4, off1) + mstore_const(BUF + 36, off2)
        code += mstore_const(BUF + 4 + off1, n1)
        for w in range(sz1 // 32):
            code += mstore_in(BUF + 4 + off1 + 32 + 32 * w, w % 3)
        code += mstore_const(BUF + 4 + off2, n2)
        for w in range(sz2 // 32):
            code += mstore_in(BUF + 4 + off2 + 32 + 32 * w, (1 + w) % 3 if rnd.random() < 0.5 else w % 3)
        end = off2 + 32 + sz2
        meta.update({"n1": n1, "n2": n2})
        meta["domain"] = [0, 1, 2**255, (0x61 << 248), (0x61 << 248) + 1, M256 - 1]
    if has_msg:
        code += mstore_const(BUF + 4 + 64, end)
        c, n = enc_string(end, msg)
        code += c
        end += n
    return code + call_cheat(HEVM, 4 + end), meta


def wrap_depth(inner: list, depth: int, accounts: dict, tail: list | None = None) -> bytes:
    """Place `inner` (leaves one flag on the stack) at call depth `depth`; every level forwards the whole
    calldata to the next one and returns (flag of its call, 42)."""
    tail = tail if tail is not None else []
    leaf = inner + [("PUSH", 0), "MSTORE"] + tail + [("PUSH", 42), ("PUSH", 32), "MSTORE", ("PUSH", 64), ("PUSH", 0), "RETURN"]
    code = assemble(leaf)
    for lvl in range(depth - 1, 0, -1):
        addr = 0xDEE900 + lvl
        accounts[addr] = code
        fwd = ["CALLDATASIZE", ("PUSH", 0), ("PUSH", 0x800), "CALLDATACOPY",
               ("PUSH", 64), ("PUSH", 0x100), "CALLDATASIZE", ("PUSH", 0x800), ("PUSH", 0), ("PUSH", addr), ("PUSH", GAS), "CALL",
               ("PUSH", 0), "MSTORE", ("PUSH", 0x100), "MLOAD", ("PUSH", 32), "MSTORE", ("PUSH", 0x120), "MLOAD", ("PUSH", 64), "MSTORE",
               ("PUSH", 96), ("PUSH", 0), "RETURN"]
        code = assemble(fwd)
    return code


def fam_assert(rnd: random.Random, sig: str, depth: int = 1, ninputs: int = 8):
    inner, meta = assert_call(sig, rnd)
    accounts: dict[int, bytes] = {}
    accounts[TARGET] = wrap_depth(inner, depth, accounts)
    names = ["cd0", "cd1", "cd2"]
    prog = Prog(accounts=accounts, calldata=[Sym(nm, 256) for nm in names], name=f"assert-{sig}-d{depth}", meta=meta)
    dom = meta["domain"]
    inputs = [{nm: dom[0] for nm in names}]
    # designed points: equal, less, greater, and a pair ordered differently by the signed and unsigned reading
    lo, hi = dom[1 % len(dom)], dom[-1]
    for a, b in [(lo, lo), (lo, hi), (hi, lo), (hi, hi)]:
        inputs.append({"cd0": a, "cd1": b, "cd2": a})
    ninputs = max(ninputs, len(inputs) + 2)
    while len(inputs) < ninputs:
        inputs.append({nm: rnd.choice(dom) for nm in names})
    return prog, inputs


def fam_assume(rnd: random.Random, ninputs: int = 8):
    """vm.assume(cond(cd0, cd1)); then return cd0 + 1"""
    op = rnd.choice(["LT", "GT", "EQ", "SLT", "ISZERO", "ID"])
    if op == "ISZERO":
        cond = [("PUSH", 0), "CALLDATALOAD", "ISZERO"]
    elif op == "ID":
        cond = [("PUSH", 0), "CALLDATALOAD"]
    else:
        cond = [("PUSH", 32), "CALLDATALOAD", ("PUSH", 0), "CALLDATALOAD", op]
    code = put_selector("assume(bool)") + cond + [("PUSH", BUF + 4), "MSTORE"] + call_cheat(HEVM, 36)
    tail = [("PUSH", 0), "CALLDATALOAD", ("PUSH", 1), "ADD", ("PUSH", 64), "MSTORE"]
    body = code + [("PUSH", 0), "MSTORE"] + tail + [("PUSH", 96), ("PUSH", 0), "RETURN"]
    names = ["cd0", "cd1"]
    prog = Prog(accounts={TARGET: assemble(body)}, calldata=[Sym(nm, 256) for nm in names], name=f"assume-{op}")
    dom = [0, 1, 2, 2**255, M256 - 1]
    inputs = [{nm: rnd.choice(dom) for nm in names} for _ in range(ninputs)]
    return prog, inputs


# ---------------------------------------------------------------------------------------------
# C14: prank histories, state-setting cheatcodes, fresh symbols

ECHO = 0xEC4000
ECHO2 = 0xEC4001
PRANKER = 0xEC4002
EOA = 0xE0A001  # no code, no balance


def echo_runtime() -> bytes:
    """returns (CALLER, ORIGIN, SLOAD(0), SELFBALANCE)"""
    return assemble(["CALLER", ("PUSH", 0), "MSTORE", "ORIGIN", ("PUSH", 32), "MSTORE", ("PUSH", 0), "SLOAD", ("PUSH", 64), "MSTORE",
                     "SELFBALANCE", ("PUSH", 96), "MSTORE", ("PUSH", 128), ("PUSH", 0), "RETURN"])


def cheat(sig: str, args: list[list], addr: int = HEVM, ret_words: int = 0) -> list:
    """A cheatcode call with static word arguments given as code snippets; pops the flag."""
    code = put_selector(sig)
    for i, a in enumerate(args):
        code += a + [("PUSH", BUF + 4 + 32 * i), "MSTORE"]
    return code + call_cheat(addr, 4 + 32 * len(args), ret_words) + ["POP"]


def cd(k: int) -> list:
    return [("PUSH", 32 * k), "CALLDATALOAD"]


def fam_prank(rnd: random.Random, length: int | None = None, ninputs: int = 4):
    """A history of prank-family calls interleaved with calls / creations / cheatcode calls."""
    n = length or rnd.randint(2, 6)
    body = []
    out = 0  # output cursor
    active = False
    desc = []
    pranker_code = assemble(
        # a callee that itself pranks and calls ECHO2: its prank must not leak to the caller's frame
        cheat("prank(address)", [[("PUSH", 0xBEEF)]])
        + [("PUSH", 128), ("PUSH", 0), ("PUSH", 0), ("PUSH", 0), ("PUSH", 0), ("PUSH", ECHO2), ("PUSH", GAS), "CALL", "POP",
           ("PUSH", 128), ("PUSH", 0), "RETURN"])
    # `active`: True / False / None (differs between the arms of an earlier symbolic branch)
    def emit(op) -> list:
        nonlocal out
        code = []
        if op in ("prank1", "startPrank1"):
            code += cheat(f"{op[:-1]}(address)", [cd(0)])
        elif op in ("prank2", "startPrank2"):
            code += cheat(f"{op[:-1]}(address,address)", [cd(0), cd(1)])
        elif op == "stopPrank":
            code += cheat("stopPrank()", [])
        elif op in ("call", "staticcall", "nested"):
            target = PRANKER if op == "nested" else ECHO
            kind = "STATICCALL" if op == "staticcall" else "CALL"
            code += [("PUSH", 128), ("PUSH", 0x1000 + out), ("PUSH", 0), ("PUSH", 0)]
            if kind == "CALL":
                code += [("PUSH", 0)]
            code += [("PUSH", target), ("PUSH", GAS), kind, "POP"]
            out += 128
        elif op == "eoacall":
            # a call to an account without code is a call all the same: it succeeds, returns nothing and uses up a single-use prank
            code += [("PUSH", 0), ("PUSH", 0), ("PUSH", 0), ("PUSH", 0), ("PUSH", 0), ("PUSH", EOA), ("PUSH", GAS), "CALL", ("PUSH", 0x1000 + out), "MSTORE"]
            out += 32
        elif op == "create":
            # runtime: returns (SLOAD(0), SLOAD(1)) = the creator and the origin the constructor saw
            rt = assemble([("PUSH", 0), "SLOAD", ("PUSH", 0), "MSTORE", ("PUSH", 1), "SLOAD", ("PUSH", 32), "MSTORE", ("PUSH", 64), ("PUSH", 0), "RETURN"])
            init = assemble(["CALLER", ("PUSH", 0), "SSTORE", "ORIGIN", ("PUSH", 1), "SSTORE",
                             ("PUSH", len(rt)), ("PUSHL", "rt"), ("PUSH", 0), "CODECOPY", ("PUSH", len(rt)), ("PUSH", 0), "RETURN",
                             ("MARK", "rt"), ("RAW", rt)])
            lab = f"i{len(desc)}_{out}"
            code += [("PUSHN", 2, len(init)), ("PUSHL", lab), ("PUSH", 0x2000), "CODECOPY", ("PUSHN", 2, len(init)), ("PUSH", 0x2000), ("PUSH", 0), "CREATE"]
            # ask the created contract who created it and under which tx.origin
            code += [("PUSH", 64), ("PUSH", 0x1000 + out), ("PUSH", 0), ("PUSH", 0), ("PUSH", 0), "DUP6", ("PUSH", GAS), "CALL", "POP", "POP"]
            out += 64
            code.append(("DATA", lab, init))
        elif op == "cheatcall":
            code += cheat("load(address,bytes32)", [[("PUSH", ECHO)], [("PUSH", 0)]], ret_words=1)
        return code

    nbranch = 0
    for _ in range(n):
        ops = ["call", "call", "staticcall", "create", "cheatcall", "nested", "eoacall"]
        if active is False:
            ops += ["prank1", "prank2", "startPrank1", "startPrank2", "prank1"]
        else:
            ops += ["stopPrank"]
        if rnd.random() < 0.1:
            ops.append("stopPrank")
        if nbranch < 2:
            ops += ["branch", "branch"]
        op = rnd.choice(ops)
        if op == "branch":
            # the two arms of a branch on a symbolic calldata bit do different things to the prank state:
            # each path has its own prank record
            nbranch += 1
            if active is False:
                arms = [[], ["call"], ["prank1"], ["startPrank1"], ["prank1", "call"], ["startPrank2", "call"], ["prank1", "eoacall"]]
            else:
                arms = [[], ["call"], ["stopPrank"], ["call", "call"], ["stopPrank", "call"]]
            a1, a2 = rnd.sample(arms, 2)
            lt, le = f"bt{nbranch}", f"be{nbranch}"
            body += [("PUSH", 64), "CALLDATALOAD", ("PUSH", 1), "AND", ("PUSHL", lt), "JUMPI"]
            for o in a2:
                body += emit(o)
            body += [("PUSHL", le), "JUMP", ("LABEL", lt)]
            for o in a1:
                body += emit(o)
            body += [("LABEL", le)]
            desc.append(f"branch({'+'.join(a1) or '-'}|{'+'.join(a2) or '-'})")
            active = None
            continue
        desc.append(op)
        body += emit(op)
        if op in ("prank1", "startPrank1", "prank2", "startPrank2"):
            active = True
        elif op == "stopPrank":
            active = False
        elif op in ("call", "staticcall", "nested", "create", "eoacall"):
            # a single-use prank is consumed by this call
            if active is True and _last_prank(desc) in ("prank1", "prank2"):
                active = False
    data = [x for x in body if isinstance(x, tuple) and x[0] == "DATA"]
    body = [x for x in body if not (isinstance(x, tuple) and x[0] == "DATA")]
    tail = []
    for _, lab, init in data:
        tail += [("MARK", lab), ("RAW", init)]
    code = assemble(body + [("PUSHN", 2, max(out, 32)), ("PUSHN", 2, 0x1000), "RETURN"] + tail)
    names = ["cd0", "cd1", "cd2"]
    prog = Prog(accounts={TARGET: code, ECHO: echo_runtime(), ECHO2: echo_runtime(), PRANKER: pranker_code},
                calldata=[Sym(nm, 256) for nm in names], name="prank-" + "-".join(desc), meta={"history": desc})
    inputs = [{"cd0": rnd.choice([0x1111, 0xA, CALLER, 2**160 - 1]), "cd1": rnd.choice([0x2222, 0xB, 1]), "cd2": k % 2} for k in range(max(ninputs, 4))]
    return prog, inputs


def _last_prank(desc):
    for d in reversed(desc[:-1]):
        if d in ("prank1", "prank2", "startPrank1", "startPrank2"):
            return d
        if d == "stopPrank":
            return None
    return None


STATE_CHEATS = [
    ("deal(address,uint256)", "balance"),
    ("store(address,bytes32,bytes32)", "storage"),
    ("warp(uint256)", "TIMESTAMP"),
    ("roll(uint256)", "NUMBER"),
    ("fee(uint256)", "BASEFEE"),
    ("chainId(uint256)", "CHAINID"),
    ("coinbase(address)", "COINBASE"),
    ("difficulty(uint256)", "DIFFICULTY"),
    ("etch(address,bytes)", "code"),
]


def fam_statecheat(rnd: random.Random, which: int | None = None, ninputs: int = 5):
    sig, what = STATE_CHEATS[which if which is not None else rnd.randrange(len(STATE_CHEATS))]
    body = []
    sym = rnd.random() < 0.7
    val = cd(0) if sym else [("PUSH", rnd.choice([0, 5, 2**64]))]
    reads = []
    if what == "balance":
        body += cheat(sig, [[("PUSH", ECHO)], val])
        reads = [[("PUSH", ECHO), "BALANCE"], [("PUSH", ECHO2), "BALANCE"], ["SELFBALANCE"]]
    elif what == "storage":
        slot = rnd.choice([0, 1, 7])
        body += cheat(sig, [[("PUSH", ECHO)], [("PUSH", slot)], val])
        body += cheat("load(address,bytes32)", [[("PUSH", ECHO)], [("PUSH", slot)]], ret_words=1)
        body += cheat("load(address,bytes32)", [[("PUSH", ECHO2)], [("PUSH", slot)]], ret_words=0)
        reads = [[("PUSH", RETBUF), "MLOAD"]]
        # also through the account's own SLOAD(0)
        body += [("PUSH", 128), ("PUSH", 0x1400), ("PUSH", 0), ("PUSH", 0), ("PUSH", 0), ("PUSH", ECHO), ("PUSH", GAS), "CALL", "POP"]
        reads.append([("PUSH", 0x1440), "MLOAD"])
    elif what == "code":
        newcode = assemble([("PUSH", rnd.choice([7, 9])), ("PUSH", 0), "MSTORE", ("PUSH", 32), ("PUSH", 0), "RETURN"])
        body += put_selector(sig) + mstore_const(BUF + 4, ECHO2) + mstore_const(BUF + 36, 0x40)
        c, nbytes = enc_string(0x40, newcode)
        body += c + call_cheat(HEVM, 4 + 0x40 + nbytes) + ["POP"]
        body += [("PUSH", 32), ("PUSH", 0x1400), ("PUSH", 0), ("PUSH", 0), ("PUSH", 0), ("PUSH", ECHO2), ("PUSH", GAS), "CALL", "POP"]
        reads = [[("PUSH", ECHO2), "EXTCODESIZE"], [("PUSH", ECHO), "EXTCODESIZE"], [("PUSH", 0x1400), "MLOAD"]]
    else:
        body += cheat(sig, [val])
        # a second block value set to something else, so that a mix-up between the fields of the block shows
        other = rnd.choice([x for x in ("roll(uint256)", "warp(uint256)", "fee(uint256)", "chainId(uint256)") if x != sig])
        body += cheat(other, [[("PUSH", rnd.choice([7, 1000, 2**40]))]])
        reads = [[what], ["TIMESTAMP"], ["NUMBER"], ["CHAINID"], ["BASEFEE"]]
    fork = rnd.random() < 0.6
    if fork:
        # what the cheatcode set stays set on both sides of a later symbolic branch (each path has its own copy of the state)
        arm = [("PUSH", 0xF0), ("PUSH", 0x3E0), "MSTORE"]
        if what not in ("balance", "storage", "code") and rnd.random() < 0.6:
            # ... and what only one side sets afterwards is set on that side only (the block environment is per path)
            arm += cheat(rnd.choice(["warp(uint256)", "roll(uint256)", "fee(uint256)", "chainId(uint256)"]), [[("PUSH", rnd.choice([9999, 3, 2**33]))]])
        body += [("PUSH", 32), "CALLDATALOAD", ("PUSH", 1), "AND", ("PUSHL", "fk"), "JUMPI"] + arm + [("LABEL", "fk")]
    for i, r in enumerate(reads):
        body += r + [("PUSH", 32 * i), "MSTORE"]
    code = assemble(body + [("PUSH", 0x400), ("PUSH", 0), "RETURN"])
    prog = Prog(accounts={TARGET: code, ECHO: echo_runtime(), ECHO2: echo_runtime()}, calldata=[Sym("cd0", 256), Sym("cd1", 256)],
                balances={ECHO2: 3}, name=f"cheat-{sig}-{'sym' if sym else 'con'}{'-fork' if fork else ''}")
    pool = [0, 1, 2**64, 2**128, 2**160 - 1, 12345]
    if what == "balance":
        pool = [0, 1, 2**64, 2**128, 12345]  # balances above 2^128 are outside halmos' documented model
    return prog, [{"cd0": rnd.choice(pool), "cd1": k % 2} for k in range(max(ninputs, 2))]


FRESH = [
    ("createUint(uint256,string)", "uint"), ("createInt(uint256,string)", "int"), ("createUint256(string)", None),
    ("createInt256(string)", None), ("createBytes32(string)", None), ("createAddress(string)", None), ("createBool(string)", None),
    ("createBytes4(string)", None), ("createBytes(uint256,string)", "bytes"), ("createString(uint256,string)", "bytes"),
    ("randomUint()", None), ("randomUint(uint256)", "uint"), ("randomInt(uint256)", "int"), ("randomAddress()", None), ("randomBool()", None),
    ("randomBytes(uint256)", "bytes"), ("randomBytes4()", None), ("randomBytes8()", None),
    ("createUint256(string,uint256,uint256)", "range"), ("randomUint(uint256,uint256)", "range"), ("randomUint(uint256,uint256)", "range"),
]
RANGES = [(0, 10), (5, 5), (0, 2**256 - 1), (1, 2**256 - 1), (0, 2**255), (10, 2**255 + 10), (2**255 - 1, 2**255), (2**255, 2**256 - 1),
          (2**255 + 5, 2**255 + 7), (3, 2**128), (2**64, 2**200)]


def fam_fresh(rnd: random.Random, ncalls: int = 2, ninputs: int = 6):
    """ncalls fresh-value cheatcodes; the program returns everything they returned (fixed 160 bytes each)."""
    body = []
    meta = []
    for k in range(ncalls):
        sig, sized = rnd.choice(FRESH)
        addr = SVM if sig.startswith("create") else HEVM
        params = sig[sig.index("(") + 1 : -1].split(",") if "()" not in sig else []
        code = put_selector(sig)
        size_arg = None
        pos = 0
        if sized == "range":
            lo, hi = rnd.choice(RANGES)
            size_arg = ("range", lo, hi)
            first = params.index("uint256")
            code += mstore_const(BUF + 4 + 32 * first, lo) + mstore_const(BUF + 4 + 32 * (first + 1), hi)
            pos = 0
        elif sized:
            size_arg = rnd.choice([1, 7, 8, 9, 64, 128, 255, 256]) if sized in ("uint", "int") else rnd.choice([0, 1, 31, 32, 33, 64])
            code += mstore_const(BUF + 4, size_arg)
            pos = 1
        end = 32 * len(params)
        if "string" in params:
            code += mstore_const(BUF + 4 + 32 * pos, end)
            c, nb = enc_string(end, b"x")
            code += c
            end += nb
        # clear the return buffer, call, copy 160 bytes of return buffer + RETURNDATASIZE to the output
        body += code + [("PUSH", 128), ("PUSH", RETBUF), ("PUSH", 4 + end), ("PUSH", BUF), ("PUSH", 0), ("PUSHN", 20, addr), ("PUSH", GAS), "CALL", "POP"]
        if sized != "bytes":
            # (halmos does not pad dynamic return values to a word boundary; Solidity's decoder does not care)
            body += ["RETURNDATASIZE", ("PUSH", 0x1000 + 160 * k), "MSTORE"]
        body += [("PUSH", 128), ("PUSH", RETBUF), ("PUSH", 0x1000 + 160 * k + 32), "MCOPY"]
        # wipe the return buffer for the next call
        for w in range(4):
            body += mstore_const(RETBUF + 32 * w, 0)
        meta.append((sig, size_arg))
    code = assemble(body + [("PUSHN", 2, 160 * ncalls), ("PUSHN", 2, 0x1000), "RETURN"])
    prog = Prog(accounts={TARGET: code}, calldata=[Sym("cd0", 256)], name="fresh-" + "+".join(f"{s.split('(')[0]}{(z if not isinstance(z, tuple) else f'[{z[1]:#x}..{z[2]:#x}]') if z is not None else ''}" for s, z in meta),
                meta={"fresh": meta})
    inputs = [{"cd0": 0} for _ in range(ninputs)]
    return prog, inputs


def etch_probe(branch: bool = False):
    """vm.etch(E, probe) on an address E that does not exist yet; vm.store(E, 0, cd0); E.call() - the probe returns TLOAD(0),
    then TSTORE(0, 7), then SLOAD(0); vm.load(E, 0).  The account's persistent and transient storage are two things: the
    reads are 0, cd0, cd0.  With `branch`, a symbolic branch sits between the etch and the store."""
    E = 0xE7C4ED
    probe = assemble([("PUSH", 0), "TLOAD", ("PUSH", 0), "MSTORE", ("PUSH", 7), ("PUSH", 0), "TSTORE", ("PUSH", 0), "SLOAD", ("PUSH", 32), "MSTORE",
                      ("PUSH", 64), ("PUSH", 0), "RETURN"])
    # etch(address,bytes): selector, who, offset 0x40, length, code bytes
    body = put_selector("etch(address,bytes)")
    body += [("PUSH", E), ("PUSH", BUF + 4), "MSTORE", ("PUSH", 0x40), ("PUSH", BUF + 36), "MSTORE", ("PUSH", len(probe)), ("PUSH", BUF + 68), "MSTORE"]
    for k in range(0, len(probe), 32):
        chunk = probe[k : k + 32].ljust(32, b"\0")
        body += [("PUSHN", 32, int.from_bytes(chunk, "big")), ("PUSH", BUF + 100 + k), "MSTORE"]
    body += call_cheat(HEVM, 100 + 32 * ((len(probe) + 31) // 32)) + ["POP"]
    if branch:
        body += [("PUSH", 32), "CALLDATALOAD", ("PUSH", 1), "AND", ("PUSHL", "eb"), "JUMPI", ("PUSH", 1), ("PUSH", 0x7F0), "MSTORE", ("LABEL", "eb")]
    body += cheat("store(address,bytes32,bytes32)", [[("PUSH", E)], [("PUSH", 0)], cd(0)])
    body += [("PUSH", 64), ("PUSH", 0x1000), ("PUSH", 0), ("PUSH", 0), ("PUSH", 0), ("PUSH", E), ("PUSH", GAS), "CALL", "POP"]
    body += cheat("load(address,bytes32)", [[("PUSH", E)], [("PUSH", 0)]], ret_words=1)
    body += [("PUSH", RETBUF), "MLOAD", ("PUSH", 0x1040), "MSTORE", ("PUSH", 96), ("PUSH", 0x1000), "RETURN"]
    names = ["cd0", "cd1", "cd2"]
    prog = Prog(accounts={TARGET: assemble(body)}, calldata=[Sym(nm, 256) for nm in names], name="etch-fresh-account" + ("-branch" if branch else ""), meta={})
    inputs = [{"cd0": 42, "cd1": 0, "cd2": 0}, {"cd0": 0, "cd1": 1, "cd2": 0}, {"cd0": M256 - 1, "cd1": 2, "cd2": 0}, {"cd0": 7, "cd1": 3, "cd2": 0}]
    return prog, inputs
