"""Observation of the SMT-LIB text halmos hands to the external solver for a path (C11).

The real `Path.to_smt2`, `solve.dump` and `solve.refine` are called on paths produced by real runs; the
written file is (a) taken apart syntactically into the observation record validated by SolverQuery.tla
and (b) re-parsed with z3 and evaluated pointwise (harness/zeval.py) at concrete inputs.
"""

from __future__ import annotations

import re
from pathlib import Path as FsPath

import z3

from . import zeval
from .common import repo_python_path

repo_python_path()

from halmos.solve import PathContext, SolvingContext, dump  # noqa: E402

ABS_RE = re.compile(r"\((declare|define)-fun (f_evm_\w+) ")
GUARD_RE = re.compile(r"\(assert\s+\(=>\s+\|?(\d+)\|?\s")
NAMED_RE = re.compile(r"\(assert\s+\(!\s+\|?(\d+)\|?\s+:named\s+<(\d+)>\)\)")


def dump_query(path, args, workdir: FsPath, name: str, refined: bool = False):
    """Write the query of `path` exactly as solve_low_level would; returns (text, SMTQuery)."""
    query = path.to_smt2(args)
    sctx = SolvingContext(dump_dir=workdir)
    pid = abs(hash(name)) % 10**9
    pctx = PathContext(args=args, path_id=pid, solving_ctx=sctx, query=query)
    if refined:
        pctx = pctx.refine()
    dump(pctx)
    f = pctx.dump_file
    text = f.read_text()
    f.unlink()
    sctx.executor.shutdown(wait=False)
    return text, pctx.query


def split_asserts(text: str) -> list[str]:
    """top-level (assert ...) forms of an SMT-LIB text"""
    out = []
    i = 0
    n = len(text)
    while True:
        j = text.find("(assert", i)
        if j < 0:
            break
        depth = 0
        k = j
        while k < n:
            c = text[k]
            if c == "|":  # quoted symbol
                k = text.index("|", k + 1)
            elif c == "(":
                depth += 1
            elif c == ")":
                depth -= 1
                if depth == 0:
                    break
            k += 1
        out.append(text[j : k + 1])
        i = k + 1
    return out


def observe(path, text: str, query, cache: bool, refined: bool, before: list[str] | None = None) -> dict:
    # the named assertions are recognised textually (their label must be the literal's own id); guarded and
    # plain assertions structurally, on the parsed terms (z3 wraps guarded assertions in let-bindings)
    named = [int(m.group(1)) for a in split_asserts(text) if (m := NAMED_RE.match(a)) and m.group(1) == m.group(2)]
    guarded, nplain = [], 0
    for a in parse(text):
        if z3.is_const(a) and z3.is_bool(a) and a.decl().name().isdigit():
            continue
        if z3.is_implies(a) and z3.is_const(a.arg(0)) and a.arg(0).decl().name().isdigit():
            guarded.append(int(a.arg(0).decl().name()))
        else:
            nplain += 1
    decl = [m.group(2) for m in ABS_RE.finditer(text) if m.group(1) == "declare"]
    defi = [m.group(2) for m in ABS_RE.finditer(text) if m.group(1) == "define"]
    return {
        "conds": [c.get_id() for c in path.conditions],
        "ids": [int(x) for x in query.assertions],
        "named": named,
        "guarded": guarded,
        "nplain": nplain,
        "cache": cache,
        "declared": sorted(set(decl)),
        "defined": sorted(set(defi)),
        "refined": refined,
        "before": sorted(set(before or [])),
    }


def parse(text: str):
    """The assertions of the dumped file as z3 terms (in a fresh context-free parse)."""
    body = text.replace("(check-sat)", "").replace("(get-model)", "").replace("(get-unsat-core)", "")
    body = re.sub(r"\(set-option :produce-unsat-cores true\)", "", body)
    return list(z3.parse_smt2_string(body))


def truth(assertions, env: dict, strict_abstractions: bool = False):
    """Conjunction of the parsed assertions at env.  Tracking literals (Boolean constants named by a
    number) are true: the named assertions assert them.  Returns True / False / an exception string."""
    interp = zeval.Interp()
    interp.strict_abstractions = strict_abstractions
    e = dict(env)
    ev = zeval.Evaluator(e, interp)
    # bind tracking literals
    for a in assertions:
        for s in _bool_consts(a):
            if s.isdigit():
                ev.env[s] = True
    try:
        ok = True
        for a in assertions:
            if z3.is_const(a) and z3.is_bool(a) and a.decl().name().isdigit():
                continue  # (assert (! |id| :named <id>)): the tracking literal itself
            if z3.is_implies(a) and z3.is_const(a.arg(0)) and a.arg(0).decl().name().isdigit():
                a = a.arg(1)  # (assert (=> |id| c)) with |id| asserted: c
            if not ev.add_condition(a):
                ok = False
        return ok
    except (zeval.Unbound, zeval.Unsupported) as ex:
        return f"{type(ex).__name__}: {ex}"


def _bool_consts(e, seen=None, out=None):
    seen = set() if seen is None else seen
    out = set() if out is None else out
    if e.get_id() in seen:
        return out
    seen.add(e.get_id())
    if z3.is_const(e) and z3.is_bool(e) and e.decl().kind() == z3.Z3_OP_UNINTERPRETED:
        out.add(e.decl().name())
    for c in e.children():
        _bool_consts(c, seen, out)
    return out
