"""Replay of SymExec.tla terminal states into SEVM.run (E2: exploration-algorithm engine).

The counted loop of the model is assembled to bytecode; the initial knowledge lo0 <= n <= hi0 is put
on the initial Path; the fault schedule (indices of `check` calls answered `unknown`) is injected by
a wrapper around `Exec.check`, the boundary every branching decision goes through; all other calls
reach halmos' real quick-check and z3.
"""

from __future__ import annotations

import z3

from . import zeval
from .asm import assemble
from .hrun import TARGET, FunctionInfo, Prog, SEVM, Sym, build_exec, captured_logs, hmain, mk_args, path_rec

PAD = 12  # the loop head must not sit at a program counter that the loop counter can take


def loop_program() -> bytes:
    """i := 0; while (i < n) i++; return i   - the JUMPI's taken branch stays in the loop."""
    prog = []
    for _ in range(PAD):
        prog += [("PUSH", 0), "POP"]
    prog += [
        ("PUSH", 0),  # i
        ("LABEL", "head"),
        ("PUSH", 0), "CALLDATALOAD",  # n
        "DUP2",  # i        stack: i, n, i
        "LT",  # i < n
        ("PUSHL", "body"), "JUMPI",
        # exit: return i
        ("PUSH", 0), "MSTORE", ("PUSH", 32), ("PUSH", 0), "RETURN",
        ("LABEL", "body"),
        ("PUSH", 1), "ADD",
        ("PUSHL", "head"), "JUMP",
    ]
    return assemble(prog)


def run_scenario(lo0: int, hi0: int, loop: int, sched: list[int], nmax: int):
    """Returns (yielded paths as [(covered values, ret)], bounded flag, number of check calls)."""
    from halmos.sevm import Exec

    prog = Prog(accounts={TARGET: loop_program()}, calldata=[Sym("n", 256)], name="loop")
    args = mk_args("--solver-timeout-branching", "0", "--loop", str(loop))
    sevm = SEVM(args, FunctionInfo("Verif", "loop", "loop()", "a92100cb"))
    solver = hmain.mk_solver(args)
    n = z3.BitVec("n", 256)
    calls = [0]
    orig = Exec.check
    faults = set(sched)

    def check(self, cond):
        calls[0] += 1
        if calls[0] in faults:
            return z3.unknown
        return orig(self, cond)

    out = []
    with captured_logs():
        ex0 = build_exec(prog, sevm, solver)
        if lo0 == hi0:
            ex0.path.append(n == lo0)  # a concrete trip count (SymExec!BranchConcrete)
        else:
            ex0.path.append(z3.And(z3.UGE(n, lo0), z3.ULE(n, hi0)))
        Exec.check = check
        try:
            paths = [path_rec(ex) for ex in sevm.run(ex0)]
        finally:
            Exec.check = orig
    for p in paths:
        if p.error is not None or p.stuck:
            out.append((None, p.error or p.stuck_reason))
            continue
        cov = []
        for v in range(nmax + 1):
            ev = zeval.Evaluator({"n": v})
            if all(ev.add_condition(c) for c in p.conditions):
                cov.append(v)
        ret = int.from_bytes(p.data, "big") if isinstance(p.data, bytes) else zeval.Evaluator({"n": cov[0] if cov else 0}).eval(p.data)
        out.append((tuple(cov), ret))
    return out, bool(sevm.logs.bounded_loops), calls[0]


def expected(rec: dict):
    ys = []
    for y in rec["yielded"]:
        cov = tuple(range(y["lo"], y["hi"] + 1)) if y["lo"] <= y["hi"] else ()
        ys.append((cov, y["ret"]))
    return ys, rec["bounded"], rec["nchecks"]
