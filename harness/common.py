"""Shared infrastructure of the /verif checks: TLC driver, evidence, violations, known findings."""

from __future__ import annotations

import hashlib
import json
import os
import re
import shutil
import subprocess
import sys
import time
from dataclasses import dataclass, field
from pathlib import Path

from . import tlaval

VERIF = Path(__file__).resolve().parent.parent
SPEC = VERIF / "spec"
REPO = Path(os.environ.get("VERIF_REPO", "/repo"))
WORK_ROOT = VERIF / ".work"
TLA_JAR = "/opt/veriftools/tla/tla2tools.jar"
TLA_DEPS = "/opt/veriftools/tla/CommunityModules-deps.jar"
NCPU = os.cpu_count() or 4


def seed() -> int:
    try:
        return int(os.environ.get("VERIF_SEED", "0"))
    except ValueError:
        return 0


class MachineryError(Exception):
    """Raised when the checker itself failed (never reported as a violation; exit 2)."""


# ---------------------------------------------------------------------------------------------
# work directories


def workdir(name: str) -> Path:
    d = WORK_ROOT / f"{name}-{os.getpid()}"
    if d.exists():
        shutil.rmtree(d, ignore_errors=True)
    d.mkdir(parents=True)
    return d


def cleanup(d: Path) -> None:
    shutil.rmtree(d, ignore_errors=True)


# ---------------------------------------------------------------------------------------------
# TLC


@dataclass
class TLCResult:
    rc: int
    stdout: str
    states_generated: int = 0
    distinct_states: int = 0
    records: list = field(default_factory=list)
    violated: str | None = None  # name of violated invariant/property or error message
    coverage: dict = field(default_factory=dict)  # action name -> (distinct, total)
    wall_s: float = 0.0
    depth: int = 0

    @property
    def ok(self) -> bool:
        return self.rc == 0 and self.violated is None


import itertools

_RUN_COUNTER = itertools.count()
_REC_RE = re.compile(r'<<\s*"REC"')
_JREC_RE = re.compile(r'^"JREC(.*)"\s*$', re.M)


def _unescape(t: str) -> str:
    out = []
    i = 0
    n = len(t)
    while i < n:
        c = t[i]
        if c == "\\" and i + 1 < n:
            nx = t[i + 1]
            out.append({"n": "\n", "t": "\t"}.get(nx, nx))
            i += 2
        else:
            out.append(c)
            i += 1
    return "".join(out)


def extract_records(out: str) -> list:
    """Records printed by the specification: `PrintT("JREC" \\o ToJson(v))` lines (one JSON value per
    line) and `PrintT(<<"REC", ...>>)` tuples (parsed by bracket matching, TLC wraps them)."""
    recs = []
    for m in _JREC_RE.finditer(out):
        try:
            recs.append(json.loads(_unescape(m.group(1))))
        except json.JSONDecodeError as e:  # pragma: no cover - machinery failure
            raise MachineryError(f"cannot parse TLC JSON record: {e}: {m.group(1)[:200]}") from e
    i = 0
    while True:
        m = _REC_RE.search(out, i)
        if not m:
            break
        try:
            v, end = tlaval.parse_prefix(out, m.start())
        except tlaval.ParseError as e:  # pragma: no cover - machinery failure
            raise MachineryError(f"cannot parse TLC record at {m.start()}: {e}") from e
        recs.append(v[1:])
        i = end
    return recs


def run_tlc(
    module: str,
    cfg: str | None = None,
    *,
    work: Path,
    workers: int | str = "auto",
    env: dict | None = None,
    extra: list[str] | None = None,
    timeout: int = 3600,
    coverage: bool = False,
    deadlock: bool = False,
    spec_dir: Path = SPEC,
    expect_violation: bool = False,
    xss: str = "1g",
    heap: str | None = None,
) -> TLCResult:
    """Run TLC on spec_dir/module.tla with spec_dir/cfg. Output goes to work/."""
    tag = f"{module}-{int(time.time()*1000)%100000000}-{next(_RUN_COUNTER)}"
    meta = work / f"meta-{tag}"
    cmd = [
        "java",
        f"-Xss{xss}",
        "-XX:+UseParallelGC",
    ]
    if heap:
        cmd.append(f"-Xmx{heap}")
    cmd += [
        "-cp",
        f"{spec_dir}:{TLA_JAR}:{TLA_DEPS}",
        "tlc2.TLC",
        "-workers",
        str(NCPU if workers == "auto" else workers),
        "-metadir",
        str(meta),
        "-noGenerateSpecTE",
    ]
    if not deadlock:
        cmd.append("-deadlock")  # -deadlock DISABLES deadlock checking
    if coverage:
        cmd += ["-coverage", "1"]
    if cfg:
        cmd += ["-config", str(cfg)]
    if extra:
        cmd += extra
    cmd.append(module)
    e = dict(os.environ)
    e.pop("JAVA_TOOL_OPTIONS", None)
    if env:
        e.update({k: str(v) for k, v in env.items()})
    t0 = time.time()
    outfile = work / f"tlc-{tag}.out"
    with open(outfile, "w") as fo:
        try:
            p = subprocess.run(
                cmd, cwd=spec_dir, env=e, stdout=fo, stderr=subprocess.STDOUT, timeout=timeout
            )
            rc = p.returncode
        except subprocess.TimeoutExpired:
            subprocess.run(["pkill", "-f", str(meta)], check=False)
            raise MachineryError(f"TLC timed out after {timeout}s on {module}")
    out = outfile.read_text(errors="replace")
    res = TLCResult(rc=rc, stdout=out, wall_s=time.time() - t0)
    m = re.findall(r"(\d+) states generated, (\d+) distinct states found", out)
    if m:
        res.states_generated, res.distinct_states = int(m[-1][0]), int(m[-1][1])
    m = re.search(r"The depth of the complete state graph search is (\d+)", out)
    if m:
        res.depth = int(m.group(1))
    m = re.search(r"Error: Invariant (\S+) is violated", out)
    if m:
        res.violated = m.group(1)
    else:
        m = re.search(r"Error: (Action property|Temporal properties|Assumption|Deadlock)[^\n]*", out)
        if m:
            res.violated = m.group(0)
        else:
            m = re.search(r"Error: [^\n]*", out)
            if m and rc != 0:
                res.violated = m.group(0)
    if coverage:
        for mm in re.finditer(r"<(\w+) line \d+, col \d+ to line \d+, col \d+ of module (\w+)>: (\d+):(\d+)", out):
            res.coverage[mm.group(1)] = (int(mm.group(3)), int(mm.group(4)))
    res.records = extract_records(out)
    shutil.rmtree(meta, ignore_errors=True)
    if not expect_violation and (rc != 0 and res.violated is None):
        raise MachineryError(f"TLC failed rc={rc} on {module}; see {outfile}\n{out[-3000:]}")
    return res


def sany(module_path: Path) -> None:
    p = subprocess.run(
        ["java", "-cp", f"{TLA_JAR}:{TLA_DEPS}", "tla2sany.SANY", str(module_path.name)],
        cwd=module_path.parent,
        capture_output=True,
        text=True,
    )
    if p.returncode != 0 or "*** Errors" in p.stdout or "Fatal" in p.stdout:
        raise MachineryError(f"SANY failed on {module_path}:\n{p.stdout}\n{p.stderr}")


# ---------------------------------------------------------------------------------------------
# known findings


def load_known() -> dict:
    try:
        return json.loads((VERIF / "KNOWN_FINDINGS.json").read_text())
    except FileNotFoundError:
        return {"known": [], "fixed": []}


# ---------------------------------------------------------------------------------------------
# check bookkeeping


class Check:
    """Bookkeeping for one run of one property check."""

    def __init__(self, pid: str, tier: str, level: str = "model_checking"):
        self.pid = pid
        self.tier = tier
        self.level = level
        self.t0 = time.time()
        self.seed = seed()
        self.cov: dict = {
            "states": 0,
            "transitions": 0,
            "traces_validated_against_impl": 0,
            "samples": [],
            "evaluations": 0,
            "distinct_nontrivial": 0,
            "rule": "",
        }
        self.assumptions: list[str] = []
        self.nviol = 0
        self.known_hits: dict[str, int] = {}
        self.known = [k for k in load_known().get("known", []) if k.get("property") == pid]
        self._nontrivial: set = set()
        self.notes: list[str] = []
        self.max_viol_reports = 8
        self._viol_keys: dict[str, int] = {}

    # -- coverage helpers
    def add_tlc(self, r: TLCResult) -> None:
        self.cov["states"] += r.distinct_states
        self.cov["transitions"] += r.states_generated

    def sample(self, s, limit: int = 6) -> None:
        if len(self.cov["samples"]) < limit:
            self.cov["samples"].append(s)

    def count(self, key: str, n: int = 1) -> None:
        self.cov[key] = self.cov.get(key, 0) + n

    def nontrivial(self, key) -> None:
        self._nontrivial.add(key)

    # -- violations
    def violation(self, key: str, what: str, replay: dict) -> None:
        """Report a disagreement between the implementation and the specification.

        `key` is the stable identifier of the failing input/call site/history; if it matches an
        entry of KNOWN_FINDINGS.json it is reported as KNOWN-FINDING instead.
        """
        for k in self.known:
            if re.fullmatch(k["key"], key):
                n = self.known_hits.get(k["key"], 0)
                self.known_hits[k["key"]] = n + 1
                if n == 0:
                    print(f"KNOWN-FINDING: property={self.pid} {k['what']} [{key}]", flush=True)
                return
        self.nviol += 1
        if key in self._viol_keys:
            self._viol_keys[key] += 1
            return
        self._viol_keys[key] = 1
        if len(self._viol_keys) > self.max_viol_reports:
            return
        d = Path(os.environ.get("VERIF_REPLAY_DIR", VERIF / "replays")) / self.pid
        d.mkdir(parents=True, exist_ok=True)
        h = hashlib.sha1(key.encode()).hexdigest()[:12]
        path = d / f"{h}.json"
        replay = dict(replay)
        replay.update({"property": self.pid, "key": key, "what": what})
        path.write_text(json.dumps(replay, indent=1, default=str))
        print(f"VIOLATION property={self.pid} replay={path}", flush=True)
        print(f"  key={key}\n  {what}", flush=True)

    # -- finish
    def finish(self) -> int:
        self.cov["distinct_nontrivial"] = max(self.cov.get("distinct_nontrivial", 0), len(self._nontrivial))
        if not self.cov["samples"]:
            self.cov["samples"] = ["(no sample recorded)"]
        ev = {
            "property_id": self.pid,
            "tier": self.tier,
            "seed": self.seed,
            "level": self.level,
            "coverage": self.cov,
            "assumptions": self.assumptions,
            "wall_s": round(time.time() - self.t0, 2),
            "violations": self.nviol,
        }
        if self.known_hits:
            ev["coverage"]["known_findings_hit"] = self.known_hits
        if self.notes:
            ev["coverage"]["notes"] = self.notes
        evdir = Path(os.environ.get("VERIF_EVIDENCE_DIR", VERIF / "evidence"))  # redirected by bin/mutant
        evdir.mkdir(parents=True, exist_ok=True)
        (evdir / f"{self.pid}.json").write_text(json.dumps(ev, indent=1, default=str))
        status = "VIOLATED" if self.nviol else "ok"
        print(
            f"[{self.pid}/{self.tier}] {status}: states={self.cov['states']} transitions={self.cov['transitions']} "
            f"traces={self.cov['traces_validated_against_impl']} nontrivial={self.cov['distinct_nontrivial']} "
            f"wall={ev['wall_s']}s",
            flush=True,
        )
        return 1 if self.nviol else 0


def repo_python_path() -> None:
    """Make /repo/src importable (the checks always use the current working tree)."""
    p = str(REPO / "src")
    if p not in sys.path:
        sys.path.insert(0, p)
