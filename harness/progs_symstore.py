"""Storage programs over accounts with symbolic (arbitrary) storage (E1 corpus for C08).

Same shape as progs_storage.fam_storage, but the state variables have the fixed types of
symstore.LAYOUT (so that halmos' initial storage terms can be read back, see harness/symstore.py), the
target account's storage is symbolic - from the start, or enabled by a cheatcode call at the beginning of
the program - and loads of never-written elements matter as much as read-after-write: each program
loads elements before and after storing to *other* elements of the same mapping / array.
"""

from __future__ import annotations

import random

from . import cheats
from .asm import assemble
from .hrun import TARGET, Prog, Sym
from .progs import M256, compile_expr
from .progs_storage import compile_loc, loc_concrete
from .symstore import LAYOUT

HEVM = 0x7109709ECFA91A80626FF3989D68F67F5B1DD12D
SVM = 0xF3993A62377BCD56AE39D773740A5390411E8BC9
OTHER = 0x07E2  # a second account with code, never symbolic


def gen_typed_loc(rnd: random.Random, nin: int, base: int | None = None):
    base = rnd.choice(sorted(LAYOUT)) if base is None else base

    def word():
        if rnd.random() < 0.6:
            return ("in", rnd.randrange(nin))
        return ("c", rnd.choice([0, 1, 2, 3, 5, 143, 2**160 - 1]))

    L = ("slot", base)
    for t in LAYOUT[base]:
        if t == "map":
            L = ("map", word(), L, 32)
        else:
            # (a constant index stays within the 2^16 window in which halmos recognises `hash + offset` constants)
            L = ("arr", L, ("in", rnd.randrange(nin)) if rnd.random() < 0.6 else ("c", rnd.choice([0, 1, 2, 100])))
        if rnd.random() < 0.15:
            L = ("off", L, rnd.choice([1, 2, 3]))
    return L


def _enable_call(sig: str, cheat_addr: int, who: int) -> list:
    sel = int.from_bytes(cheats.selector(sig), "big")
    return [("PUSHN", 32, sel << 224), ("PUSH", 0x400), "MSTORE", ("PUSH", who), ("PUSH", 0x404), "MSTORE",
            ("PUSH", 0), ("PUSH", 0), ("PUSH", 0x24), ("PUSH", 0x400), ("PUSH", 0), ("PUSHN", 20, cheat_addr), ("PUSH", 0xFFFFFF), "CALL", "POP"]


def fam_symstorage(rnd: random.Random, ninputs: int = 10):
    nin = 3
    bases = rnd.sample(sorted(LAYOUT), rnd.randint(1, 3))
    locs = []
    for b in bases:
        locs.append(gen_typed_loc(rnd, nin, b))
        if LAYOUT[b] and rnd.random() < 0.8:
            locs.append(gen_typed_loc(rnd, nin, b))  # a second element of the same mapping / array
    body = []
    how = rnd.choice(["initial", "initial", "svm", "vm"])
    symstore = set()
    if how == "initial":
        symstore = {TARGET}
    elif how == "svm":
        body += _enable_call("enableSymbolicStorage(address)", SVM, TARGET)
    else:
        body += _enable_call("setArbitraryStorage(address)", HEVM, TARGET)
    out = 0
    nops = rnd.randint(2, 6)
    for _ in range(nops):
        L = rnd.choice(locs)
        # the transient storage of the account is not symbolic: the same locations, transiently, start at zero
        st, ld = ("TSTORE", "TLOAD") if rnd.random() < 0.25 else ("SSTORE", "SLOAD")
        if rnd.random() < 0.5:
            val = ("in", rnd.randrange(nin)) if rnd.random() < 0.6 else ("c", rnd.choice([0, 1, 7, M256 - 1]))
            body += compile_expr(val) + compile_loc(L, rnd, 0, "runtime") + [st]
        else:
            body += compile_loc(L, rnd, 0, "runtime") + [ld, ("PUSH", 32 * out), "MSTORE"]
            out += 1
    if rnd.random() < 0.6:
        # a symbolic branch (on a bit of the last calldata word) before the final reads: the storage of both
        # resulting paths is still symbolic, and what one of them stores the other does not see
        lab = "sfork"
        L = rnd.choice(locs)
        body += [("PUSH", 32 * (nin - 1)), "CALLDATALOAD", ("PUSH", 8), "AND", ("PUSHL", lab), "JUMPI"]
        body += [("PUSH", 0x5A)] + compile_loc(L, rnd, 0, "runtime") + ["SSTORE", ("LABEL", lab)]
    for L in locs:
        body += compile_loc(L, rnd, 0, "runtime") + ["SLOAD", ("PUSH", 32 * out), "MSTORE"]
        out += 1
    # the other account's storage stays zero-initialised: read one of its slots through a call
    other = assemble([("PUSH", 0), "CALLDATALOAD", "SLOAD", ("PUSH", 0), "MSTORE", ("PUSH", 32), ("PUSH", 0), "RETURN"])
    body += [("PUSH", rnd.choice([0, 1, 5])), ("PUSH", 0x400), "MSTORE",
             ("PUSH", 32), ("PUSH", 32 * out), ("PUSH", 32), ("PUSH", 0x400), ("PUSH", 0), ("PUSH", OTHER), ("PUSH", 0xFFFFFF), "CALL", "POP"]
    out += 1
    code = assemble(body + [("PUSH", 32 * out), ("PUSH", 0), "RETURN"])

    def idx_inputs(L, acc):
        if L[0] == "arr":
            if L[2][0] == "in":
                acc.add(f"cd{L[2][1]}")
            idx_inputs(L[1], acc)
        elif L[0] == "map":
            idx_inputs(L[2], acc)
        elif L[0] == "off":
            idx_inputs(L[1], acc)
        return acc

    bounded = set()
    for L in locs:
        idx_inputs(L, bounded)
    names = [f"cd{i}" for i in range(nin)]
    prog = Prog(accounts={TARGET: code, OTHER: other}, calldata=[Sym(nm, 256) for nm in names], name="symstorage", symstore=symstore,
                meta={"locs": repr(locs), "enabled": how, "symstore_enabled": {TARGET}, "bounded_inputs": {nm: 2**64 for nm in bounded}})
    inputs = []
    for k in range(ninputs):
        if k < ninputs * 2 // 3:
            inputs.append({nm: rnd.choice([0, 1, 2, 3]) for nm in names})
        else:
            inputs.append({nm: rnd.choice([0, 1, 143, 2**160 - 1, 2**255, rnd.getrandbits(256)]) for nm in names})
    inputs.append({nm: 8 + k for k, nm in enumerate(names)})  # bit 3 set: the storing side of the final branch
    return prog, inputs
