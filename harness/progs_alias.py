"""Programs whose account operand is symbolic (E1 corpus for C02/C01/C09: address aliasing).

The root takes the address of the account it inspects / calls from calldata.  halmos resolves such an
address by branching over every deployed account it may alias, plus the "no code there" case
(SEVM.resolve_address_alias); every one of these cases is a concrete behaviour of the program, so each
input below - every deployed account, the root itself, addresses without code, the same addresses with
dirty high bits - has to be covered by a reported path whose end state is the reference machine's.
"""

from __future__ import annotations

import random

from .asm import assemble
from .hrun import CALLER, TARGET, Prog, Sym

A1, A2, A3 = 0xA1A1A1, 0xB2B2B2, 0xC3C3C3
GAS = 0xFFFFFF
NOCODE = [0, 0x1234, 0xDEADBEEFDEADBEEFDEADBEEFDEADBEEFDEADBEEF, 2**160 - 1]


def _ret_word(push: list) -> list:
    return push + [("PUSH", 0), "MSTORE", ("PUSH", 32), ("PUSH", 0), "RETURN"]


def _callee(rnd: random.Random, tag: int) -> bytes:
    k = rnd.random()
    if k < 0.3:
        return assemble(_ret_word([("PUSH", tag)]))
    if k < 0.5:
        # context-revealing: ADDRESS ^ CALLER ^ tag  (distinguishes CALL / DELEGATECALL / CALLCODE)
        return assemble(_ret_word(["ADDRESS", "CALLER", "XOR", ("PUSH", tag), "XOR"]))
    if k < 0.7:
        # state effect visible afterwards (or a static-context failure under STATICCALL)
        return assemble([("PUSH", tag), ("PUSH", 1), "SSTORE"] + _ret_word([("PUSH", 1), "SLOAD"]))
    if k < 0.85:
        return assemble([("PUSH", tag), ("PUSH", 0), "MSTORE", ("PUSH", 32), ("PUSH", 0), "REVERT"])
    # different code sizes / hashes
    return assemble([("PUSH", tag), "POP"] * rnd.randint(1, 4) + _ret_word([("PUSH", tag + 1)]))


def fam_alias(rnd: random.Random, ninputs: int = 10):
    deployed = [A1, A2] + ([A3] if rnd.random() < 0.4 else [])
    accounts = {a: _callee(rnd, 0x10 * (i + 1)) for i, a in enumerate(deployed)}
    storage = {(a, 1): rnd.choice([0, 3]) for a in deployed}
    nin = 2
    # the root answers 0x77 to an empty message, so that a call to itself terminates
    body = ["CALLDATASIZE", ("PUSHL", "go"), "JUMPI"] + _ret_word([("PUSH", 0x77)]) + [("LABEL", "go")]

    def tgt():
        i = 0 if rnd.random() < 0.7 else 1
        e = [("PUSH", 32 * i), "CALLDATALOAD"]
        if rnd.random() < 0.3:
            e += [("PUSHN", 20, 2**160 - 1), "AND"]
        return e

    off = 0x40
    desc = []
    for _ in range(rnd.randint(1, 3)):
        k = rnd.random()
        t = tgt()
        if k < 0.15:
            body += t + ["EXTCODESIZE", ("PUSH", off), "MSTORE"]
            desc.append("EXTCODESIZE")
        elif k < 0.3:
            body += t + ["EXTCODEHASH", ("PUSH", off), "MSTORE"]
            desc.append("EXTCODEHASH")
        elif k < 0.42:
            body += [("PUSH", 32), ("PUSH", rnd.choice([0, 1, 3])), ("PUSH", off)] + t + ["EXTCODECOPY"]
            desc.append("EXTCODECOPY")
        else:
            kind = rnd.choice(["CALL", "CALL", "STATICCALL", "DELEGATECALL", "CALLCODE"])
            body += [("PUSH", 0), ("PUSH", 0), ("PUSH", 0), ("PUSH", 0)]
            if kind in ("CALL", "CALLCODE"):
                body += [("PUSH", 0)]
            body += t + [("PUSH", GAS), kind, ("PUSH", off), "MSTORE"]
            body += ["RETURNDATASIZE", ("PUSH", off + 32), "MSTORE"]
            body += ["RETURNDATASIZE", ("PUSH", 0), ("PUSH", off + 64), "RETURNDATACOPY"]
            desc.append(kind)
            off += 64
        off += 32
    # what the calls left behind
    body += [("PUSH", 1), "SLOAD", ("PUSH", off), "MSTORE"]
    off += 32
    body += [("PUSHN", 2, off), ("PUSH", 0), "RETURN"]
    accounts[TARGET] = assemble(body)
    names = [f"cd{i}" for i in range(nin)]
    prog = Prog(accounts=accounts, calldata=[Sym(nm, 256) for nm in names], caller=CALLER, storage=storage,
                name="alias", meta={"ops": desc, "deployed": [hex(a) for a in deployed]})
    pool = deployed + [TARGET] + NOCODE + [a + (1 << 160) for a in deployed] + [rnd.getrandbits(160), rnd.getrandbits(256)]
    inputs = [{nm: a for nm in names} for a in deployed]
    inputs += [{"cd0": deployed[0], "cd1": deployed[1]}, {"cd0": deployed[1], "cd1": 0x1234}, {"cd0": 0x1234, "cd1": deployed[0]},
               {"cd0": TARGET, "cd1": deployed[0]}, {"cd0": deployed[0] + (1 << 160), "cd1": deployed[1] + (7 << 200)}]
    while len(inputs) < ninputs:
        inputs.append({nm: rnd.choice(pool) for nm in names})
    return prog, inputs
