"""C12, candidate exploration: the calldata and dyn_params returned by `mk_calldata` are given to the
real SEVM the way `halmos.__main__.run_test` / `run_message` does it (Message(data=calldata),
`path.process_dyn_params(dyn_params)`), on a hand-assembled program that CALLDATALOADs every length
word and every offset word (positions taken from Abi!Layout, printed by TLC) and returns them.

Expected: one path per element of the product of the candidate lists, each returning exactly that
combination (and the concrete offsets); nothing else.
"""

from __future__ import annotations

import itertools

from . import hrun
from .asm import assemble
from .common import MachineryError

import halmos.__main__ as hmain  # noqa: E402
from halmos.calldata import DynamicParam, FunctionInfo  # noqa: E402
from halmos.contract import Contract  # noqa: E402
from halmos.sevm import SEVM, CallContext, Message, Path  # noqa: E402
from halmos.utils import EVM, con, con_addr  # noqa: E402

from . import zeval  # noqa: E402


def reader_program(positions: list[int]) -> bytes:
    prog = []
    for i, p in enumerate(positions):
        prog += [("PUSH", 4 + p), "CALLDATALOAD", ("PUSH", 32 * i), "MSTORE"]
    prog += [("PUSH", 32 * len(positions)), ("PUSH", 0), "RETURN"]
    return assemble(prog)


def run_reader(cd, dyn_params, positions: list[int], args=None):
    """Returns [(returned bytes | None, conditions, error)] for every path SEVM yields."""
    args = args or hrun.mk_args("--solver-timeout-branching", "0")
    fun_info = FunctionInfo("C", "f", "f()", "26121ff0")
    sevm = SEVM(args, fun_info)
    solver = hmain.mk_solver(args)
    target = con_addr(hrun.TARGET)
    code = {target: Contract(reader_program(positions))}
    message = Message(
        target=target,
        caller=con_addr(hrun.CALLER),
        origin=con_addr(hrun.ORIGIN),
        value=con(0),
        data=cd,
        call_scheme=EVM.CALL,
        fun_info=fun_info,
    )
    path = Path(solver)
    path.process_dyn_params(dyn_params)
    ex0 = sevm.mk_exec(
        code=code,
        storage={target: sevm.mk_storagedata()},
        transient_storage={target: sevm.mk_storagedata()},
        balance=hmain.EMPTY_BALANCE,
        block=hmain.mk_block(),
        context=CallContext(message=message),
        pgm=code[target],
        path=path,
    )
    out = []
    with hrun.captured_logs():
        for ex in sevm.run(ex0):
            rec = hrun.path_rec(ex)
            out.append((rec.data, rec.conditions, rec.error, rec.stuck))
    return out


def drop_candidate(dyn_params, which: int = 0):
    """Negative control: the same dyn_params with the last candidate of one parameter removed."""
    out = list(dyn_params)
    idx = [i for i, d in enumerate(out) if len(d.size_choices) > 1]
    if not idx:
        return None
    i = idx[which % len(idx)]
    d = out[i]
    out[i] = DynamicParam(d.name, list(d.size_choices)[:-1], d.size_symbol, d.typ)
    return out


def check_exploration(case, lenpos: list[int], offwords: list[tuple[int, int]], dyn_params=None) -> list:
    """Compare the explored paths with the product of the candidate lists.

    lenpos: positions of the length words (dyn_params order); offwords: (position, expected value) of
    every offset word.  Returns [(key, text)] disagreements."""
    dps = case.halmos_dyn_params if dyn_params is None else dyn_params
    positions = list(lenpos) + [p for p, _ in offwords]
    try:
        paths = run_reader(case.cd, dps, positions)
    except Exception as e:  # noqa: BLE001 - halmos itself raised while reading well-formed calldata: nothing was explored
        return [("explore-exception", f"SEVM.run raised {type(e).__name__}: {e} while the reader program loaded the length words")]
    want = set(itertools.product(*[sorted(set(d.cands)) for d in case.dyn]))
    got = []
    bad = []
    nlen = len(lenpos)
    for data, conds, err, stuck in paths:
        if err is not None or stuck:
            bad.append(("explore-error", f"a path of the reader program ended with {err} stuck={stuck}"))
            continue
        if hasattr(data, "unwrap"):
            data = data.unwrap()
        if not isinstance(data, bytes):
            bad.append(("explore-symbolic", f"a path returns a symbolic length/offset word: {str(data)[:120]}"))
            continue
        if len(data) != 32 * len(positions):
            raise MachineryError("reader program returned the wrong number of words")
        ws = [int.from_bytes(data[32 * i : 32 * i + 32], "big") for i in range(len(positions))]
        combo = tuple(ws[:nlen])
        got.append(combo)
        for (p, v), w in zip(offwords, ws[nlen:]):
            if v != w:
                bad.append(("explore-offset", f"offset word at {p} reads {w}, Abi!Layout says {v}"))
        # the path condition must say exactly that the size symbols take these values
        env = {s: combo[i] for i, s in enumerate(case.szsyms)}
        ev = zeval.Evaluator(env)
        for cnd in conds:
            try:
                if not ev.add_condition(cnd):
                    bad.append(("explore-condition", f"path returning {combo} has the false condition {cnd}"))
            except zeval.Unbound as e:
                bad.append(("explore-condition", f"path condition {cnd} mentions something else than size symbols: {e}"))
        # and no other assignment of the size symbols satisfies it
        for other in want:
            if other != combo:
                ev2 = zeval.Evaluator({s: other[i] for i, s in enumerate(case.szsyms)})
                try:
                    if all(ev2.add_condition(cnd) for cnd in conds):
                        bad.append(("explore-condition", f"path returning {combo} also admits {other}"))
                        break
                except zeval.Unbound:
                    pass
    if len(got) != len(set(got)):
        bad.append(("explore-duplicate", f"a combination is explored twice: {sorted(got)[:8]}"))
    if set(got) != want:
        missing = sorted(want - set(got))[:4]
        extra = sorted(set(got) - want)[:4]
        bad.append(("explore-set", f"explored combinations differ from the product of the candidate lists: "
                    f"missing {missing} extra {extra} ({len(set(got))} of {len(want)})"))
    return bad
