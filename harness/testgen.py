"""Generated Foundry-style test contracts from a grammar of guarded assertion failures (C03/C04).

A test body is a decision tree over conditions on the (static uint256) arguments and on storage written
by setUp(); leaves end the execution: ok (STOP), Panic(k), plain revert, DSTest-style fail, a nested call
whose Panic is bubbled up, or a nested call whose failure is swallowed.  While the tree is built the
generator records, for every leaf, an argument tuple designed to reach it (conditions contribute a
witness for their true and false side); these tuples plus a boundary grid are the inputs on which the
reference machine brute-forces the test.
"""

from __future__ import annotations

import itertools
import random
from dataclasses import dataclass, field

from .artifacts import Contract, Fn, arg, dstest_fail, panic, revert_plain
from .asm import assemble
from .progs import M256

HELPER_ADDR_SLOT = 7  # setUp stores the helper's address here


@dataclass
class TestMeta:
    sig: str
    nargs: int
    grid: list[list[int]]  # per argument: interesting values
    witnesses: list[tuple]  # designed argument tuples, one per leaf
    tree: str
    uses_mul: bool = False
    uses_div: bool = False
    uses_fail: bool = False
    leaves: set = field(default_factory=set)


@dataclass
class G:
    rnd: random.Random
    nargs: int
    slots: dict  # slot -> value stored by setUp
    grid: list
    lid: int = 0
    uses_mul: bool = False
    uses_div: bool = False
    uses_fail: bool = False
    leaves: set = field(default_factory=set)
    allow_fail: bool = False
    witnesses: list = field(default_factory=list)
    focus: int | None = None  # argument that most guards compare with constants (value reuse across subtrees)

    def label(self):
        self.lid += 1
        return f"g{self.lid}"

    def add(self, i, *vals):
        for v in vals:
            for d in (-1, 0, 1):
                self.grid[i].add((v + d) % M256)

    def cond(self):
        """Returns (code pushing a 0/1 word, description, witness making it true, witness making it false)."""
        r = self.rnd
        if self.focus is not None and r.random() < 0.6:
            # the same argument is compared with (different) constants in several subtrees: what one branch
            # learns about it (a == c) must not be visible in its siblings
            i = self.focus
            c = r.choice([1, 5, 7, 9, 42, 255])
            self.add(i, c)
            return arg(i) + [("PUSH", c), "EQ"], f"a{i}=={c:#x}", {i: c}, {}
        i = r.randrange(self.nargs)
        k = r.random()
        if k < 0.25:
            c = r.choice([0, 1, 5, 42, 255, 2**128, 2**255, M256 - 1, r.getrandbits(256)])
            self.add(i, c)
            return arg(i) + [("PUSH", c), "EQ"], f"a{i}=={c:#x}", {i: c}, {i: (c + 1) % M256}
        if k < 0.45:
            c = r.choice([1, 10, 100, 2**64, 2**255])
            self.add(i, c)
            op = r.choice(["LT", "GT"])
            lo, hi = c - 1, c + 1
            return [("PUSH", c)] + arg(i) + [op], f"a{i} {op} {c:#x}", {i: lo if op == "LT" else hi}, {i: c}
        if k < 0.6 and self.nargs >= 2:
            j = (i + 1 + r.randrange(self.nargs - 1)) % self.nargs
            p, q = r.choice([3, 7, 11, 13]), r.choice([5, 17, 19, 23])
            self.add(i, p)
            self.add(j, q)
            self.uses_mul = True
            return arg(j) + arg(i) + ["MUL", ("PUSH", p * q), "EQ"], f"a{i}*a{j}=={p*q}", {i: p, j: q}, {i: p, j: q + 1}
        if k < 0.72:
            d, res = r.choice([3, 7, 10, 8, 16]), r.choice([0, 1, 5])
            self.add(i, d * res, d * res + d - 1, d * (res + 1))
            self.uses_div = True
            return [("PUSH", d)] + arg(i) + ["DIV", ("PUSH", res), "EQ"], f"a{i}/{d}=={res}", {i: d * res + 1}, {i: d * (res + 1)}
        if k < 0.82:
            d, res = r.choice([3, 7, 10, 8, 16]), r.choice([0, 1, 2])
            self.add(i, res, d + res, 5 * d + res)
            self.uses_div = True
            return [("PUSH", d)] + arg(i) + ["MOD", ("PUSH", res), "EQ"], f"a{i}%{d}=={res}", {i: 5 * d + res}, {i: 5 * d + res + 1}
        if k < 0.92 and self.slots:
            s = r.choice(sorted(self.slots))
            v = self.slots[s]
            self.add(i, v)
            return [("PUSH", s), "SLOAD"] + arg(i) + ["EQ"], f"a{i}==slot{s}", {i: v}, {i: (v + 1) % M256}
        if self.nargs >= 2:
            j = (i + 1 + r.randrange(self.nargs - 1)) % self.nargs
            c = r.choice([10, 2**255, 0])
            self.add(i, c, (c - 3) % M256)
            self.add(j, 0, 3)
            return arg(j) + arg(i) + ["ADD", ("PUSH", c), "EQ"], f"a{i}+a{j}=={c:#x}", {i: (c - 3) % M256, j: 3}, {i: c, j: 3}
        c = r.choice([0, 7])
        self.add(i, c)
        return arg(i) + [("PUSH", c), "EQ"], f"a{i}=={c}", {i: c}, {i: c + 1}

    def leaf(self, asg):
        r = self.rnd
        k = r.random()
        self.witnesses.append(tuple(asg.get(i, 0) for i in range(self.nargs)))
        if k < 0.4:
            self.leaves.add("ok")
            return ["STOP"], "ok"
        if k < 0.6:
            self.leaves.add("panic1")
            return panic(1), "panic(1)"
        if k < 0.68:
            code = r.choice([0x11, 0x12, 0x32, 0x21])
            self.leaves.add(f"panic{code:#x}")
            return panic(code), f"panic({code:#x})"
        if k < 0.78:
            self.leaves.add("revert")
            return revert_plain(), "revert"
        call_helper = [("PUSH", 0), ("PUSH", 0), ("PUSH", 4), ("PUSH", 0x60), ("PUSH", 0), ("PUSH", HELPER_ADDR_SLOT), "SLOAD", ("PUSH", 0xFFFFFF), "CALL", "POP"]
        if k < 0.86:
            # call the helper (it panics with code 1) and bubble the revert data up
            self.leaves.add("bubble")
            return call_helper + ["RETURNDATASIZE", ("PUSH", 0), ("PUSH", 0), "RETURNDATACOPY", "RETURNDATASIZE", ("PUSH", 0), "REVERT"], "bubble(helper panic)"
        if k < 0.93 or not self.allow_fail:
            self.leaves.add("swallow")
            return call_helper + ["STOP"], "swallow(helper panic)"
        self.leaves.add("fail")
        self.uses_fail = True
        return dstest_fail() + ["STOP"], "fail()"

    def sibling_tree(self):
        """if (a_j & 1) { if (a_f == c1) FAIL else ok } else { if (a_f == c2) ok' else ok }  (c1 odd, c2 even).

        The two subtrees look at the same argument; what the subtree explored first learns about it (a_f == c2)
        must not be visible in its sibling, which is still waiting on the worklist."""
        r = self.rnd
        f = r.randrange(self.nargs)
        j = r.randrange(self.nargs)
        c1, c2 = r.choice([1, 5, 7, 9, 255]), r.choice([2, 4, 42, 100])
        self.add(j, 0, 1)
        self.add(f, c1, c2)
        lt_outer, lt_in1, lt_in2 = self.label(), self.label(), self.label()
        code = arg(j) + [("PUSH", 1), "AND", ("PUSHL", lt_outer), "JUMPI"]
        # else-part (explored first by halmos): a_f == c2 ?
        self.leaves.add("ok")
        code += arg(f) + [("PUSH", c2), "EQ", ("PUSHL", lt_in2), "JUMPI", "STOP", ("LABEL", lt_in2)] + (["STOP"] if r.random() < 0.5 else revert_plain())
        # then-part: a_f == c1 ? panic : ok
        self.leaves.add("panic1")
        code += [("LABEL", lt_outer)] + arg(f) + [("PUSH", c1), "EQ", ("PUSHL", lt_in1), "JUMPI", "STOP", ("LABEL", lt_in1)] + panic(1)
        w = [0] * self.nargs
        w[j] = 1
        w[f] = c1
        self.witnesses.append(tuple(w))
        w2 = [0] * self.nargs
        w2[f] = c2
        self.witnesses.append(tuple(w2))
        return code, f"if(a{j}&1){{if(a{f}=={c1}) panic(1) else ok}}else{{if(a{f}=={c2}) ok else ok}}"

    def tree(self, depth, asg):
        if depth <= 0 or self.rnd.random() < 0.15:
            return self.leaf(asg)
        c, cd, wt, wf = self.cond()
        t, td = self.tree(depth - 1, {**asg, **wt})
        e, ed = self.tree(depth - 1, {**asg, **wf})
        lt = self.label()
        return c + [("PUSHL", lt), "JUMPI"] + e + [("LABEL", lt)] + t, f"if({cd}){{{td}}}else{{{ed}}}"


HELPER_ADDR = 0xAAAA0002  # first CREATE of the run: setUp deploys the helper


def helper_runtime() -> bytes:
    return assemble(panic(1))


def gen_test_contract(rnd: random.Random, ntests: int = 4, allow_fail: bool = False, name: str = "GenTest"):
    slots = {s: rnd.choice([0, 1, 9, 2**200, rnd.getrandbits(256)]) for s in rnd.sample([0, 1, 2, 3], rnd.randint(1, 3))}
    # setUp: store constants, deploy the helper with CREATE and remember its address
    hrt = helper_runtime()
    init = assemble([("PUSHN", 2, len(hrt)), ("PUSHL", "rt"), ("PUSH", 0), "CODECOPY", ("PUSHN", 2, len(hrt)), ("PUSH", 0), "RETURN", ("MARK", "rt"), ("RAW", hrt)])
    setup = []
    for s, v in sorted(slots.items()):
        setup += [("PUSH", v), ("PUSH", s), "SSTORE"]
    setup += [("PUSHN", 2, len(init)), ("PUSHL", "hinit"), ("PUSH", 0x100), "CODECOPY",
              ("PUSHN", 2, len(init)), ("PUSH", 0x100), ("PUSH", 0), "CREATE", ("PUSH", HELPER_ADDR_SLOT), "SSTORE", "STOP"]
    fns = [Fn("setUp()", setup)]
    metas = []
    for t in range(ntests):
        nargs = rnd.randint(1, 3)
        g = G(rnd, nargs, slots, [set([0, 1, M256 - 1]) for _ in range(nargs)], allow_fail=allow_fail)
        if rnd.random() < 0.4:
            g.focus = rnd.randrange(nargs)
        if rnd.random() < 0.25:
            body, desc = g.sibling_tree()
        else:
            body, desc = g.tree(rnd.randint(2, 3) if g.focus is not None else rnd.randint(1, 3), {})
        sig = f"check_t{t}(" + ",".join(["uint256"] * nargs) + ")"
        fns.append(Fn(sig, body))
        metas.append(TestMeta(sig, nargs, [sorted(s) for s in g.grid], g.witnesses, desc, g.uses_mul, g.uses_div, g.uses_fail, g.leaves))
    c = Contract(name, fns, data=[("MARK", "hinit"), ("RAW", init)])
    return c, metas


def arg_tuples(meta: TestMeta, rnd: random.Random, cap: int = 100) -> list[tuple]:
    out = list(dict.fromkeys(meta.witnesses))
    grids = [g if len(g) <= 6 else rnd.sample(g, 6) for g in meta.grid]
    prod = list(itertools.product(*grids))
    rnd.shuffle(prod)
    for t in prod:
        if len(out) >= cap:
            break
        if t not in out:
            out.append(t)
    return out


# ---------------------------------------------------------------------------------------------
# Division and remainder with a *symbolic* divisor (the abstractions halmos refines): templates around
# the zero divisor, where the EVM defines the result as 0 and SMT-LIB does not.

DIVOPS = ["DIV", "SDIV", "MOD", "SMOD"]


def gen_divzero_contract(rnd: random.Random, ops=None, name: str = "DivZeroTest"):
    """Tests over x = arg0, y = arg1 for each op:
    nz   if (y == 0) { if (x op y != 0) panic }     can never fail
    eq5  if (y == 0) { if (x op y == 5) panic }     can never fail
    z    if (y == 0) { if (x op y == 0) panic }     fails for every x with y = 0
    r    if (x op y == c) panic                      fails (c chosen reachable with y != 0)
    """
    setup = [("PUSH", 1), ("PUSH", 0), "SSTORE", "STOP"]
    fns = [Fn("setUp()", setup)]
    metas = []
    lid = [0]

    def lab():
        lid[0] += 1
        return f"dz{lid[0]}"

    def xopy(op):
        return arg(1) + arg(0) + [op]  # stack: x (top), y -> x op y

    for op in ops or DIVOPS:
        c = rnd.choice([1, 2, 5])
        signed = op.startswith("S")
        xs = [0, 1, 5, 7, 10, M256 - 1, M256 - 5, 2**255, rnd.getrandbits(256)]
        ys = [0, 1, 2, 3, 5, 7, M256 - 1, M256 - 2, 2**255]
        # a tuple reaching the `r` failure: x op y == c with y != 0
        if op in ("DIV", "SDIV"):
            wr = (c * 3, 3)
        else:
            wr = (c + 7 * 3, 7) if c < 7 else (c, c + 1)
        variants = {
            "nz": (True, ["ISZERO", "ISZERO"], [(5, 0), (0, 0), (M256 - 5, 0)], False),
            "eq5": (True, [("PUSH", 5), "EQ"], [(5, 0), (M256 - 5, 0)], False),
            "z": (True, ["ISZERO"], [(5, 0), (0, 0)], True),
            "r": (False, [("PUSH", c), "EQ"], [wr, (c, 0), (0, 0)], True),
        }
        for vn, (guard, test, wit, _fails) in variants.items():
            bad, end = lab(), lab()
            body = []
            if guard:
                body += arg(1) + [("PUSHL", end), "JUMPI"]  # y != 0 -> nothing to check
            body += xopy(op) + test + [("PUSHL", bad), "JUMPI", ("LABEL", end), "STOP", ("LABEL", bad)] + panic(1)
            if not guard:
                body = xopy(op) + test + [("PUSHL", bad), "JUMPI", "STOP", ("LABEL", bad)] + panic(1)
            sig = f"check_{op.lower()}_{vn}(uint256,uint256)"
            fns.append(Fn(sig, body))
            desc = (f"if(a1==0){{if((a0 {op} a1) {test}) panic}}" if guard else f"if((a0 {op} a1)=={c}) panic")
            metas.append(TestMeta(sig, 2, [sorted(set(xs + [w[0] for w in wit])), sorted(set(ys + [w[1] for w in wit]))], list(wit), desc,
                                  uses_div=True, leaves={"panic1", "ok"}))
    return Contract(name, fns), metas
