"""Generated Foundry-style test contracts from a grammar of guarded assertion failures (C03/C04).

A test body is a decision tree over conditions on the (static uint256) arguments and on storage written
by setUp(); leaves end the execution: ok (STOP), Panic(k), plain revert, DSTest-style fail, a nested call
whose Panic is bubbled up, or a nested call whose failure is swallowed.  While the tree is built the
generator records, for every leaf, an argument tuple designed to reach it (conditions contribute a
witness for their true and false side); these tuples plus a boundary grid are the inputs on which the
reference machine brute-forces the test.
"""

from __future__ import annotations

import itertools
import random
from dataclasses import dataclass, field

from .artifacts import Contract, Fn, arg, dstest_fail, panic, revert_plain
from .asm import assemble
from .progs import M256

HELPER_ADDR_SLOT = 7  # setUp stores the helper's address here


@dataclass
class TestMeta:
    sig: str
    nargs: int
    grid: list[list[int]]  # per argument: interesting values
    witnesses: list[tuple]  # designed argument tuples, one per leaf
    tree: str
    uses_mul: bool = False
    uses_div: bool = False
    uses_fail: bool = False
    leaves: set = field(default_factory=set)


@dataclass
class G:
    rnd: random.Random
    nargs: int
    slots: dict  # slot -> value stored by setUp
    grid: list
    lid: int = 0
    uses_mul: bool = False
    uses_div: bool = False
    uses_fail: bool = False
    leaves: set = field(default_factory=set)
    allow_fail: bool = False
    witnesses: list = field(default_factory=list)
    focus: int | None = None  # argument that most guards compare with constants (value reuse across subtrees)

    def label(self):
        self.lid += 1
        return f"g{self.lid}"

    def add(self, i, *vals):
        for v in vals:
            for d in (-1, 0, 1):
                self.grid[i].add((v + d) % M256)

    def cond(self):
        """Returns (code pushing a 0/1 word, description, witness making it true, witness making it false)."""
        r = self.rnd
        if self.focus is not None and r.random() < 0.6:
            # the same argument is compared with (different) constants in several subtrees: what one branch
            # learns about it (a == c) must not be visible in its siblings
            i = self.focus
            c = r.choice([1, 5, 7, 9, 42, 255])
            self.add(i, c)
            return arg(i) + [("PUSH", c), "EQ"], f"a{i}=={c:#x}", {i: c}, {}
        i = r.randrange(self.nargs)
        k = r.random()
        if k < 0.25:
            c = r.choice([0, 1, 5, 42, 255, 2**128, 2**255, M256 - 1, r.getrandbits(256)])
            self.add(i, c)
            return arg(i) + [("PUSH", c), "EQ"], f"a{i}=={c:#x}", {i: c}, {i: (c + 1) % M256}
        if k < 0.45:
            c = r.choice([1, 10, 100, 2**64, 2**255])
            self.add(i, c)
            op = r.choice(["LT", "GT"])
            lo, hi = c - 1, c + 1
            return [("PUSH", c)] + arg(i) + [op], f"a{i} {op} {c:#x}", {i: lo if op == "LT" else hi}, {i: c}
        if k < 0.6 and self.nargs >= 2:
            j = (i + 1 + r.randrange(self.nargs - 1)) % self.nargs
            p, q = r.choice([3, 7, 11, 13]), r.choice([5, 17, 19, 23])
            self.add(i, p)
            self.add(j, q)
            self.uses_mul = True
            return arg(j) + arg(i) + ["MUL", ("PUSH", p * q), "EQ"], f"a{i}*a{j}=={p*q}", {i: p, j: q}, {i: p, j: q + 1}
        if k < 0.72:
            d, res = r.choice([3, 7, 10, 8, 16]), r.choice([0, 1, 5])
            self.add(i, d * res, d * res + d - 1, d * (res + 1))
            self.uses_div = True
            return [("PUSH", d)] + arg(i) + ["DIV", ("PUSH", res), "EQ"], f"a{i}/{d}=={res}", {i: d * res + 1}, {i: d * (res + 1)}
        if k < 0.82:
            d, res = r.choice([3, 7, 10, 8, 16]), r.choice([0, 1, 2])
            self.add(i, res, d + res, 5 * d + res)
            self.uses_div = True
            return [("PUSH", d)] + arg(i) + ["MOD", ("PUSH", res), "EQ"], f"a{i}%{d}=={res}", {i: 5 * d + res}, {i: 5 * d + res + 1}
        if k < 0.92 and self.slots:
            s = r.choice(sorted(self.slots))
            v = self.slots[s]
            self.add(i, v)
            return [("PUSH", s), "SLOAD"] + arg(i) + ["EQ"], f"a{i}==slot{s}", {i: v}, {i: (v + 1) % M256}
        if self.nargs >= 2:
            j = (i + 1 + r.randrange(self.nargs - 1)) % self.nargs
            c = r.choice([10, 2**255, 0])
            self.add(i, c, (c - 3) % M256)
            self.add(j, 0, 3)
            return arg(j) + arg(i) + ["ADD", ("PUSH", c), "EQ"], f"a{i}+a{j}=={c:#x}", {i: (c - 3) % M256, j: 3}, {i: c, j: 3}
        c = r.choice([0, 7])
        self.add(i, c)
        return arg(i) + [("PUSH", c), "EQ"], f"a{i}=={c}", {i: c}, {i: c + 1}

    def leaf(self, asg):
        r = self.rnd
        k = r.random()
        self.witnesses.append(tuple(asg.get(i, 0) for i in range(self.nargs)))
        if k < 0.4:
            self.leaves.add("ok")
            return ["STOP"], "ok"
        if k < 0.6:
            self.leaves.add("panic1")
            return panic(1), "panic(1)"
        if k < 0.68:
            code = r.choice([0x11, 0x12, 0x32, 0x21])
            self.leaves.add(f"panic{code:#x}")
            return panic(code), f"panic({code:#x})"
        if k < 0.78:
            self.leaves.add("revert")
            return revert_plain(), "revert"
        call_helper = [("PUSH", 0), ("PUSH", 0), ("PUSH", 4), ("PUSH", 0x60), ("PUSH", 0), ("PUSH", HELPER_ADDR_SLOT), "SLOAD", ("PUSH", 0xFFFFFF), "CALL", "POP"]
        if k < 0.86:
            # call the helper (it panics with code 1) and bubble the revert data up
            self.leaves.add("bubble")
            return call_helper + ["RETURNDATASIZE", ("PUSH", 0), ("PUSH", 0), "RETURNDATACOPY", "RETURNDATASIZE", ("PUSH", 0), "REVERT"], "bubble(helper panic)"
        if k < 0.93 or not self.allow_fail:
            self.leaves.add("swallow")
            return call_helper + ["STOP"], "swallow(helper panic)"
        self.leaves.add("fail")
        self.uses_fail = True
        return dstest_fail() + ["STOP"], "fail()"

    def sibling_tree(self):
        """if (a_j & 1) { if (a_f == c1) FAIL else ok } else { if (a_f == c2) ok' else ok }  (c1 odd, c2 even).

        The two subtrees look at the same argument; what the subtree explored first learns about it (a_f == c2)
        must not be visible in its sibling, which is still waiting on the worklist."""
        r = self.rnd
        f = r.randrange(self.nargs)
        j = r.randrange(self.nargs)
        c1, c2 = r.choice([1, 5, 7, 9, 255]), r.choice([2, 4, 42, 100])
        if r.random() < 0.5:
            # the same constant in both subtrees: if `a_f == c1`, learnt in the harmless subtree, were visible in its sibling,
            # the sibling's guard would be decided without the constraint and the reported counterexample would be arbitrary
            c2 = c1
        self.add(j, 0, 1)
        self.add(f, c1, c2)
        lt_outer, lt_in1, lt_in2 = self.label(), self.label(), self.label()
        code = arg(j) + [("PUSH", 1), "AND", ("PUSHL", lt_outer), "JUMPI"]
        # else-part (explored first by halmos): a_f == c2 ?
        self.leaves.add("ok")
        code += arg(f) + [("PUSH", c2), "EQ", ("PUSHL", lt_in2), "JUMPI", "STOP", ("LABEL", lt_in2)] + (["STOP"] if r.random() < 0.5 else revert_plain())
        # then-part: a_f == c1 ? panic : ok
        self.leaves.add("panic1")
        code += [("LABEL", lt_outer)] + arg(f) + [("PUSH", c1), "EQ", ("PUSHL", lt_in1), "JUMPI", "STOP", ("LABEL", lt_in1)] + panic(1)
        w = [0] * self.nargs
        w[j] = 1
        w[f] = c1
        self.witnesses.append(tuple(w))
        w2 = [0] * self.nargs
        w2[f] = c2
        self.witnesses.append(tuple(w2))
        return code, f"if(a{j}&1){{if(a{f}=={c1}) panic(1) else ok}}else{{if(a{f}=={c2}) ok else ok}}"

    def tree(self, depth, asg):
        if depth <= 0 or self.rnd.random() < 0.15:
            return self.leaf(asg)
        c, cd, wt, wf = self.cond()
        t, td = self.tree(depth - 1, {**asg, **wt})
        e, ed = self.tree(depth - 1, {**asg, **wf})
        lt = self.label()
        return c + [("PUSHL", lt), "JUMPI"] + e + [("LABEL", lt)] + t, f"if({cd}){{{td}}}else{{{ed}}}"


HELPER_ADDR = 0xAAAA0002  # first CREATE of the run: setUp deploys the helper


def helper_runtime() -> bytes:
    return assemble(panic(1))


def gen_test_contract(rnd: random.Random, ntests: int = 4, allow_fail: bool = False, name: str = "GenTest"):
    slots = {s: rnd.choice([0, 1, 9, 2**200, rnd.getrandbits(256)]) for s in rnd.sample([0, 1, 2, 3], rnd.randint(1, 3))}
    # setUp: store constants, deploy the helper with CREATE and remember its address
    hrt = helper_runtime()
    init = assemble([("PUSHN", 2, len(hrt)), ("PUSHL", "rt"), ("PUSH", 0), "CODECOPY", ("PUSHN", 2, len(hrt)), ("PUSH", 0), "RETURN", ("MARK", "rt"), ("RAW", hrt)])
    setup = []
    for s, v in sorted(slots.items()):
        setup += [("PUSH", v), ("PUSH", s), "SSTORE"]
    setup += [("PUSHN", 2, len(init)), ("PUSHL", "hinit"), ("PUSH", 0x100), "CODECOPY",
              ("PUSHN", 2, len(init)), ("PUSH", 0x100), ("PUSH", 0), "CREATE", ("PUSH", HELPER_ADDR_SLOT), "SSTORE", "STOP"]
    fns = [Fn("setUp()", setup)]
    metas = []
    for t in range(ntests):
        nargs = rnd.randint(1, 3)
        g = G(rnd, nargs, slots, [set([0, 1, M256 - 1]) for _ in range(nargs)], allow_fail=allow_fail)
        if rnd.random() < 0.4:
            g.focus = rnd.randrange(nargs)
        if rnd.random() < 0.25:
            body, desc = g.sibling_tree()
        else:
            body, desc = g.tree(rnd.randint(2, 3) if g.focus is not None else rnd.randint(1, 3), {})
        sig = f"check_t{t}(" + ",".join(["uint256"] * nargs) + ")"
        fns.append(Fn(sig, body))
        metas.append(TestMeta(sig, nargs, [sorted(s) for s in g.grid], g.witnesses, desc, g.uses_mul, g.uses_div, g.uses_fail, g.leaves))
    c = Contract(name, fns, data=[("MARK", "hinit"), ("RAW", init)])
    return c, metas


def arg_tuples(meta: TestMeta, rnd: random.Random, cap: int = 100) -> list[tuple]:
    out = list(dict.fromkeys(meta.witnesses))
    grids = [g if len(g) <= 6 else rnd.sample(g, 6) for g in meta.grid]
    prod = list(itertools.product(*grids))
    rnd.shuffle(prod)
    for t in prod:
        if len(out) >= cap:
            break
        if t not in out:
            out.append(t)
    return out


# ---------------------------------------------------------------------------------------------
# Division and remainder with a *symbolic* divisor (the abstractions halmos refines): templates around
# the zero divisor, where the EVM defines the result as 0 and SMT-LIB does not.

DIVOPS = ["DIV", "SDIV", "MOD", "SMOD"]


def gen_divzero_contract(rnd: random.Random, ops=None, name: str = "DivZeroTest"):
    """Tests over x = arg0, y = arg1 for each op:
    nz   if (y == 0) { if (x op y != 0) panic }     can never fail
    eq5  if (y == 0) { if (x op y == 5) panic }     can never fail
    z    if (y == 0) { if (x op y == 0) panic }     fails for every x with y = 0
    r    if (x op y == c) panic                      fails (c chosen reachable with y != 0)
    """
    setup = [("PUSH", 1), ("PUSH", 0), "SSTORE", "STOP"]
    fns = [Fn("setUp()", setup)]
    metas = []
    lid = [0]

    def lab():
        lid[0] += 1
        return f"dz{lid[0]}"

    def xopy(op):
        return arg(1) + arg(0) + [op]  # stack: x (top), y -> x op y

    for op in ops or DIVOPS:
        c = rnd.choice([1, 2, 5])
        signed = op.startswith("S")
        xs = [0, 1, 5, 7, 10, M256 - 1, M256 - 5, 2**255, rnd.getrandbits(256)]
        ys = [0, 1, 2, 3, 5, 7, M256 - 1, M256 - 2, 2**255]
        # a tuple reaching the `r` failure: x op y == c with y != 0
        if op in ("DIV", "SDIV"):
            wr = (c * 3, 3)
        else:
            wr = (c + 7 * 3, 7) if c < 7 else (c, c + 1)
        variants = {
            "nz": (True, ["ISZERO", "ISZERO"], [(5, 0), (0, 0), (M256 - 5, 0)], False),
            "eq5": (True, [("PUSH", 5), "EQ"], [(5, 0), (M256 - 5, 0)], False),
            "z": (True, ["ISZERO"], [(5, 0), (0, 0)], True),
            "r": (False, [("PUSH", c), "EQ"], [wr, (c, 0), (0, 0)], True),
            # if (y == 0 && x != 0) { if (x op y == 0) panic }: fails for every non-zero x with y = 0 (and only there)
            "znz": ("xnz", ["ISZERO"], [(5, 0), (M256 - 5, 0), (0, 0)], True),
        }
        # "late": the operation is computed first, with a symbolic divisor (so it goes through the abstraction halmos refines
        # later); only then the path learns y == 0:  r = x op y; if (y == 0 && x != 0 && r == 0) panic  - fails for x != 0, y = 0
        bad, endp = lab(), lab()
        body = xopy(op) + arg(1) + [("PUSHL", endp), "JUMPI"] + arg(0) + ["ISZERO", ("PUSHL", endp), "JUMPI", "ISZERO", ("PUSHL", bad), "JUMPI", "STOP",
                                                                 ("LABEL", endp), "POP", "STOP", ("LABEL", bad)] + panic(1)
        sig = f"check_{op.lower()}_late(uint256,uint256)"
        fns.append(Fn(sig, body))
        metas.append(TestMeta(sig, 2, [sorted(set(xs)), sorted(set(ys))], [(5, 0), (M256 - 5, 0), (0, 0), (5, 7)], f"r=a0 {op} a1; if(a1==0 && a0!=0 && r==0) panic",
                              uses_div=True, leaves={"panic1", "ok"}))
        for vn, (guard, test, wit, _fails) in variants.items():
            bad, end = lab(), lab()
            body = []
            if guard:
                body += arg(1) + [("PUSHL", end), "JUMPI"]  # y != 0 -> nothing to check
            if guard == "xnz":
                body += arg(0) + ["ISZERO", ("PUSHL", end), "JUMPI"]  # x == 0 -> nothing to check
            body += xopy(op) + test + [("PUSHL", bad), "JUMPI", ("LABEL", end), "STOP", ("LABEL", bad)] + panic(1)
            if not guard:
                body = xopy(op) + test + [("PUSHL", bad), "JUMPI", "STOP", ("LABEL", bad)] + panic(1)
            sig = f"check_{op.lower()}_{vn}(uint256,uint256)"
            fns.append(Fn(sig, body))
            desc = (f"if(a1==0{' && a0!=0' if guard == 'xnz' else ''}){{if((a0 {op} a1) {test}) panic}}" if guard else f"if((a0 {op} a1)=={c}) panic")
            metas.append(TestMeta(sig, 2, [sorted(set(xs + [w[0] for w in wit])), sorted(set(ys + [w[1] for w in wit]))], list(wit), desc,
                                  uses_div=True, leaves={"panic1", "ok"}))
    # EXP with a symbolic exponent is an abstraction that refinement does NOT define: a model that still interprets it
    # must never be marked valid, also when the same path contains abstractions that are refined
    for vn, tests, wit, desc in [
        ("exp_mul", [(["EXP"], 5), (["MUL"], 6)], [(2, 3), (5, 1), (3, 2)], "if(a0**a1==5){if(a0*a1==6) panic}"),   # never fails (x**y odd => x*y odd)
        ("exp_div", [(["EXP"], 9), (["DIV"], 2)], [(3, 2), (9, 1), (2, 3)], "if(a0**a1==9){if(a0/a1==2) panic}"),   # never fails (3**2: 3/2=1; 9**1: 9/1=9)
        ("exp_only", [(["EXP"], 8)], [(2, 3), (8, 1), (3, 2)], "if(a0**a1==8) panic"),                                # fails for (2,3), (8,1)
    ]:
        bad, end = lab(), lab()
        body = []
        for ops, c in tests:
            body += arg(1) + arg(0) + ops + [("PUSH", c), "EQ", "ISZERO", ("PUSHL", end), "JUMPI"]
        body += panic(1) + [("LABEL", end), "STOP"]
        sig = f"check_{vn}(uint256,uint256)"
        fns.append(Fn(sig, body))
        metas.append(TestMeta(sig, 2, [sorted({w[0] for w in wit} | {0, 1, 2}), sorted({w[1] for w in wit} | {0, 1, 2})], list(wit), desc,
                              uses_mul=True, uses_div=True, leaves={"panic1", "ok"}))
    return Contract(name, fns), metas


# ---------------------------------------------------------------------------------------------
# Tests with dynamic parameters (uint256[] and bytes): the failure needs a particular length among the
# candidates halmos was told to consider, and particular contents.


def encode_abi(sig: str, args: tuple) -> bytes:
    """ABI-encode (selector + arguments) for parameter types uint256, uint256[] and bytes."""
    types = sig[sig.index("(") + 1 : -1].split(",")
    head, tail = [], b""
    for t, a in zip(types, args):
        if t == "uint256":
            head.append(a.to_bytes(32, "big"))
        else:
            head.append(None)
    hsize = 32 * len(types)
    out_head = []
    for t, a, h in zip(types, args, head):
        if h is not None:
            out_head.append(h)
            continue
        out_head.append((hsize + len(tail)).to_bytes(32, "big"))
        if t == "uint256[]":
            tail += len(a).to_bytes(32, "big") + b"".join(x.to_bytes(32, "big") for x in a)
        elif t == "bytes":
            tail += len(a).to_bytes(32, "big") + bytes(a) + b"\0" * (-len(a) % 32)
        else:
            raise ValueError(t)
    return bytes.fromhex(selector_of(sig)) + b"".join(out_head) + tail


def selector_of(sig: str) -> str:
    from .artifacts import selector

    return selector(sig)


DYN_CONFIGS = [
    # (cli, array length candidates, bytes length candidates)
    ((), [0, 1, 2], [0, 65, 1024]),
    (("--default-array-lengths", "0,3", "--default-bytes-lengths", "4,36"), [0, 3], [4, 36]),
    (("--default-array-lengths", "3,1", "--default-bytes-lengths", "36,4"), [3, 1], [36, 4]),  # not ascending
    (("--array-lengths", "p0=2,p1=33"), [2], [33]),
    (("--array-lengths", "p0={4,1},p1={40,8}"), [4, 1], [40, 8]),
]


def gen_dynamic_contract(rnd: random.Random, cfg: int, name: str = "DynTest"):
    """check_arr(uint256[] p0, uint256 p1) / check_bytes(uint256 p0, bytes p1) / check_both(uint256[] p0, bytes p1):
    Panic(1) iff the dynamic argument has length L (one of the configured candidates) and a chosen element / byte
    has a chosen value (and, for some, the static argument matches)."""
    cli, alens, blens = DYN_CONFIGS[cfg % len(DYN_CONFIGS)]
    fns = [Fn("setUp()", [("PUSH", 1), ("PUSH", 0), "SSTORE", "STOP"])]
    metas = []
    lid = [0]

    def lab():
        lid[0] += 1
        return f"dy{lid[0]}"

    def dyn_base(i):  # start of the i-th (dynamic) argument's encoding: 4 + offset
        return [("PUSH", 4 + 32 * i), "CALLDATALOAD", ("PUSH", 4), "ADD"]

    def require(cond_code, end):  # continue only if cond_code leaves non-zero
        return cond_code + ["ISZERO", ("PUSHL", end), "JUMPI"]

    for t in range(3):
        kind = ["arr", "bytes", "both"][t]
        end = lab()
        body = []
        if kind in ("arr", "both"):
            # (when the candidates are not listed in ascending order, the largest one is the interesting length)
            L = max(alens) if alens != sorted(alens) and kind == "arr" else rnd.choice([x for x in alens if x > 0] or alens)
            k = rnd.randrange(L) if L else 0
            c = rnd.choice([7, 42, 2**255, M256 - 1])
            body += require(dyn_base(0) + ["CALLDATALOAD", ("PUSH", L), "EQ"], end)
            if L:
                body += require(dyn_base(0) + [("PUSH", 32 + 32 * k), "ADD", "CALLDATALOAD", ("PUSHN", 32, c), "EQ"], end)
            arr = [0] * L
            if L:
                arr[k] = c
        if kind in ("bytes", "both"):
            B = max(blens) if blens != sorted(blens) and kind == "bytes" else rnd.choice([x for x in blens if x > 0] or blens)
            j = rnd.randrange(B) if B else 0
            v = rnd.choice([1, 0x2A, 0xFF])
            body += require(dyn_base(1) + ["CALLDATALOAD", ("PUSH", B), "EQ"], end)
            if B:
                # the byte at index j: top byte of the word loaded at data+j
                body += require(dyn_base(1) + [("PUSH", 32 + j), "ADD", "CALLDATALOAD", ("PUSH", 248), "SHR", ("PUSH", v), "EQ"], end)
            bts = bytearray(B)
            if B:
                bts[j] = v
        if kind == "arr":
            d = rnd.choice([0, 5, 2**200])
            body += require([("PUSH", 36), "CALLDATALOAD", ("PUSHN", 32, d), "EQ"], end)
            sig = "check_arr(uint256[],uint256)"
            wit = (arr, d)
            others = [([], d), (arr, d + 1), ([x ^ 1 for x in arr], d), (arr + [0], d)]
            desc = f"p0.length=={L} && p0[{k}]=={c:#x} && p1=={d:#x}"
        elif kind == "bytes":
            d = rnd.choice([0, 9])
            body += require([("PUSH", 4), "CALLDATALOAD", ("PUSH", d), "EQ"], end)
            sig = "check_bytes(uint256,bytes)"
            wit = (d, bytes(bts))
            others = [(d, b""), (d + 1, bytes(bts)), (d, bytes(B)), (d, bytes(bts) + b"\1")]
            desc = f"p0=={d} && p1.length=={B} && p1[{j}]=={v:#x}"
        else:
            sig = "check_both(uint256[],bytes)"
            wit = (arr, bytes(bts))
            others = [([], b""), (arr, bytes(B)), ([0] * len(arr), bytes(bts))]
            desc = f"p0.length=={L} && p0[{k}]=={c:#x} && p1.length=={B} && p1[{j}]=={v:#x}"
        body += panic(1) + [("LABEL", end), "STOP"]
        fns.append(Fn(sig, body))
        m = TestMeta(sig, 2, [], [], f"if({desc}) panic(1)", leaves={"panic1", "ok"})
        m.dyn_tuples = [wit] + others
        m.dyn_bounds = (alens, blens)
        metas.append(m)
    return Contract(name, fns), metas, cli


IMM_MAGIC = int.from_bytes(bytes(range(0xA0, 0xC0)), "big")  # stands for an immutable in the function bodies


def gen_immutable_contract(rnd: random.Random):
    """A test contract with an `immutable LIMIT` (written by the constructor into the code it returns; the artifact's
    runtime code has the zero placeholder) and a storage variable set in the constructor:
       check_below(x):   if (x < LIMIT) Panic(1)            fails for x < LIMIT
       check_state(x):   if (x == LIMIT + slot0) Panic(1)   fails for exactly one x
       check_never(x):   if (x & 1 == 2) Panic(1)           cannot fail"""
    limit = rnd.choice([1, 42, 2**64, 2**255])
    s0 = rnd.choice([0, 7, 1000])
    ctor = [("PUSH", s0), ("PUSH", 0), "SSTORE"] if s0 else []
    imm = [("PUSHN", 32, IMM_MAGIC)]
    below = arg(0) + imm + ["SWAP1", "LT", ("PUSHL", "p_b"), "JUMPI", "STOP", ("LABEL", "p_b")] + panic(1)
    state = imm + [("PUSH", 0), "SLOAD", "ADD"] + arg(0) + ["EQ", ("PUSHL", "p_s"), "JUMPI", "STOP", ("LABEL", "p_s")] + panic(1)
    never = arg(0) + [("PUSH", 1), "AND", ("PUSH", 2), "EQ", ("PUSHL", "p_n"), "JUMPI", "STOP", ("LABEL", "p_n")] + panic(1)
    c = Contract("ImmutableT", [Fn("setUp()", ["STOP"]), Fn("check_below(uint256)", below), Fn("check_state(uint256)", state), Fn("check_never(uint256)", never)],
                 ctor=ctor, immutables={IMM_MAGIC: limit})
    tgt = (limit + s0) % M256
    grid = sorted({0, 1, (limit - 1) % M256, limit, (limit + 1) % M256, tgt, (tgt + 1) % M256, M256 - 1})
    metas = [TestMeta("check_below(uint256)", 1, [grid], [((limit - 1) % M256,)], f"if(x<LIMIT={limit}) panic(1)", leaves={"panic1", "ok"}),
             TestMeta("check_state(uint256)", 1, [grid], [(tgt,)], f"if(x==LIMIT+slot0={tgt}) panic(1)", leaves={"panic1", "ok"}),
             TestMeta("check_never(uint256)", 1, [grid], [(0,)], "if(x&1==2) panic(1)", leaves={"ok"})]
    return c, metas


def gen_annotated_contract(rnd: random.Random):
    """A function-level annotation concerns its function only:
       check_a(x)  `@custom:halmos --panic-error-codes 0x11`: if (x & 1 == 2) Panic(0x11)    cannot fail
       check_b(x)  (no annotation, default codes {0x01}):      if (x == K) Panic(0x01)         fails for x = K"""
    k = rnd.choice([0, 42, 2**255])
    a = arg(0) + [("PUSH", 1), "AND", ("PUSH", 2), "EQ", ("PUSHL", "pa"), "JUMPI", "STOP", ("LABEL", "pa")] + panic(0x11)
    b = arg(0) + [("PUSHN", 32, k), "EQ", ("PUSHL", "pb"), "JUMPI", "STOP", ("LABEL", "pb")] + panic(1)
    c = Contract("AnnotatedT", [Fn("setUp()", ["STOP"]), Fn("check_a(uint256)", a, devdoc="--panic-error-codes 0x11"), Fn("check_b(uint256)", b)])
    grid = sorted({0, 1, 2, k, (k + 1) % M256, M256 - 1})
    metas = [TestMeta("check_a(uint256)", 1, [grid], [(0,)], "if(x&1==2) panic(0x11)  [--panic-error-codes 0x11]", leaves={"ok"}),
             TestMeta("check_b(uint256)", 1, [grid], [(k,)], f"if(x=={k}) panic(1)", leaves={"panic1", "ok"})]
    return c, metas
