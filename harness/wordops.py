"""Driving halmos' word-level operations (HalmosBitVec / HalmosBool) the way SEVM.run does.

`apply_op` mirrors the dispatch of SEVM.run / SEVM.arith for one opcode (which method is called on
which operand, which abstraction function is passed); the E1 one-instruction programs of
progs_ops.py validate that mirror against the real dispatch.
"""

from __future__ import annotations

import z3

from .common import repo_python_path

repo_python_path()

from halmos.bitvec import HalmosBitVec as BV  # noqa: E402
from halmos.bitvec import HalmosBool as HBool  # noqa: E402
from halmos.contract import OP_AND, OP_OR  # noqa: E402
from halmos import sevm as hsevm  # noqa: E402

OPS2 = ["ADD", "MUL", "SUB", "DIV", "SDIV", "MOD", "SMOD", "EXP", "SIGNEXTEND", "LT", "GT", "SLT", "SGT", "EQ",
        "AND", "OR", "XOR", "BYTE", "SHL", "SHR", "SAR"]
OPS1 = ["ISZERO", "NOT"]
OPS3 = ["ADDMOD", "MULMOD"]


class Abstractions:
    """The uninterpreted functions SEVM passes to the arithmetic methods, per operand width."""

    def __init__(self, size: int):
        self.size = size
        if size == 256:
            self.mul = hsevm.f_mul
            self.mod = hsevm.f_mod
            self.div, self.sdiv, self.smod, self.exp = hsevm.f_div, hsevm.f_sdiv, hsevm.f_smod, hsevm.f_exp
        else:
            def fn(name, n):
                s = z3.BitVecSort(n)
                return z3.Function(f"f_evm_{name}_{n}", s, s, s)

            self.mul = {size: fn("bvmul", size), 2 * size: fn("bvmul", 2 * size)}
            self.mod = {size: fn("bvurem", size), size + 8: fn("bvurem", size + 8), 2 * size: fn("bvurem", 2 * size)}
            self.div, self.sdiv, self.smod, self.exp = fn("bvudiv", size), fn("bvsdiv", size), fn("bvsrem", size), fn("exp", size)


class Unsupported(Exception):
    """The operand shape is one halmos documents as unsupported (symbolic SIGNEXTEND index ...)."""


def apply_op(op: str, A, B=None, C=None, *, abs_: Abstractions, smt_exp_by_const: int = 2):
    """A = top of stack, B = second, C = third; returns HalmosBitVec | HalmosBool."""
    size = abs_.size

    def bv(x):
        return x.as_bv(size=size) if isinstance(x, HBool) else x

    if op == "ISZERO":
        return A.is_zero()
    if op == "NOT":
        return bv(A).bitwise_not()
    if op == "AND":
        return hsevm.bitwise(OP_AND, A, B)
    if op == "OR":
        return hsevm.bitwise(OP_OR, A, B)
    if op == "EQ":
        if isinstance(A, HBool) and isinstance(B, HBool):
            return A.eq(B)
        if isinstance(A, BV) and isinstance(B, BV):
            return A.eq(B)
        return BV(A, size=size).eq(BV(B, size=size))
    A, B = bv(A), bv(B) if B is not None else None
    if C is not None:
        C = bv(C)
    if op == "ADD":
        return A.add(B)
    if op == "SUB":
        return A.sub(B)
    if op == "MUL":
        return A.mul(B, abstraction=abs_.mul[size])
    if op == "DIV":
        return A.div(B, abstraction=abs_.div)
    if op == "MOD":
        return A.mod(B, abstraction=abs_.mod[size])
    if op == "SDIV":
        return A.sdiv(B, abstraction=abs_.sdiv)
    if op == "SMOD":
        return A.smod(B, abstraction=abs_.smod)
    if op == "EXP":
        return A.exp(B, exp_abstraction=abs_.exp, mul_abstraction=abs_.mul[size], smt_exp_by_const=smt_exp_by_const)
    if op == "XOR":
        return A.bitwise_xor(B)
    if op == "LT":
        return A.ult(B)
    if op == "GT":
        return A.ugt(B)
    if op == "SLT":
        return A.slt(B)
    if op == "SGT":
        return A.sgt(B)
    if op == "SHL":
        return B.lshl(A)
    if op == "SHR":
        return B.lshr(A)
    if op == "SAR":
        return B.ashr(A)
    if op == "BYTE":
        if A.is_concrete:
            return B.byte(A.value, output_size=size)
        if size != 256:
            raise Unsupported("symbolic BYTE index below 256 bits")
        return BV(hsevm.SEVM.sym_byte_of(None, A.value, B.as_z3()), size=256)
    if op == "SIGNEXTEND":
        if not A.is_concrete or size != 256:
            raise Unsupported("SIGNEXTEND needs a concrete index and 256-bit operands")
        return B.signextend(A.value)
    if op == "ADDMOD":
        return A.addmod(B, C, abstraction=abs_.mod[size + 8])
    if op == "MULMOD":
        return A.mulmod(B, C, mul_abstraction=abs_.mul[2 * size], mod_abstraction=abs_.mod[2 * size])
    raise ValueError(op)


def result_value(r, ev=None) -> int:
    """Concrete value of a result; symbolic results are evaluated with the zeval Evaluator `ev`."""
    if isinstance(r, HBool):
        # identity tests, as halmos itself does (HalmosBool.__init__ re-initialises the TRUE/FALSE
        # singletons when a symbolic comparison simplifies to a constant, so is_concrete is unreliable)
        if r.is_true:
            return 1
        if r.is_false:
            return 0
        return int(ev.eval(r.as_z3()))
    if r.is_concrete:
        return r.value
    v = ev.eval(r.as_z3())
    return int(v)
