"""Cheatcode descriptors for spec/Cheats.tla, derived from the forge-std / halmos-cheatcodes
Solidity signatures (the harness' own list; selectors computed with keccak, not read from halmos)."""

from __future__ import annotations

import re

from eth_hash.auto import keccak

HEVM = 0x7109709ECFA91A80626FF3989D68F67F5B1DD12D
SVM = 0xF3993A62377BCD56AE39D773740A5390411E8BC9

# StdAssertions.sol / Vm.sol (forge-std 1.9)
ASSERT_SIGS = []
for _t in ["bool", "uint256", "int256", "address", "bytes32", "string", "bytes"]:
    for _op in ["Eq", "NotEq"]:
        for _arr in ["", "[]"]:
            for _msg in [False, True]:
                ASSERT_SIGS.append(f"assert{_op}({_t}{_arr},{_t}{_arr}{',string' if _msg else ''})")
for _op in ["Lt", "Gt", "Le", "Ge"]:
    for _t in ["uint256", "int256"]:
        for _msg in [False, True]:
            ASSERT_SIGS.append(f"assert{_op}({_t},{_t}{',string' if _msg else ''})")
for _op in ["True", "False"]:
    for _msg in [False, True]:
        ASSERT_SIGS.append(f"assert{_op}(bool{',string' if _msg else ''})")

OTHER_SIGS = {
    "assume(bool)": {"kind": "assume"},
    "store(address,bytes32,bytes32)": {"kind": "store"},
    "load(address,bytes32)": {"kind": "load"},
    "deal(address,uint256)": {"kind": "deal"},
    "warp(uint256)": {"kind": "warp"},
    "roll(uint256)": {"kind": "roll"},
    "fee(uint256)": {"kind": "fee"},
    "chainId(uint256)": {"kind": "chainId"},
    "coinbase(address)": {"kind": "coinbase"},
    "difficulty(uint256)": {"kind": "difficulty"},
    "prevrandao(bytes32)": {"kind": "difficulty"},
    "prank(address)": {"kind": "prank1"},
    "prank(address,address)": {"kind": "prank2"},
    "startPrank(address)": {"kind": "startPrank1"},
    "startPrank(address,address)": {"kind": "startPrank2"},
    "stopPrank()": {"kind": "stopPrank"},
    "etch(address,bytes)": {"kind": "etch"},
    "setArbitraryStorage(address)": {"kind": "symstore"},
    "enableSymbolicStorage(address)": {"kind": "symstore"},
    # halmos-cheatcodes SymTest (svm)
    "createUint(uint256,string)": {"kind": "fresh", "typ": "uint", "n": 0},
    "createInt(uint256,string)": {"kind": "fresh", "typ": "int", "n": 0},
    "createUint256(string)": {"kind": "fresh", "typ": "uint256", "n": -1},
    "createInt256(string)": {"kind": "fresh", "typ": "int256", "n": -1},
    "createBytes32(string)": {"kind": "fresh", "typ": "bytes32", "n": -1},
    "createAddress(string)": {"kind": "fresh", "typ": "address", "n": -1},
    "createBool(string)": {"kind": "fresh", "typ": "bool", "n": -1},
    "createBytes4(string)": {"kind": "fresh", "typ": "bytes4", "n": -1},
    "createUint256(string,uint256,uint256)": {"kind": "freshRange", "typ": "uint256", "n": 1},
    "createBytes(uint256,string)": {"kind": "fresh", "typ": "bytes", "n": 0},
    "createString(uint256,string)": {"kind": "fresh", "typ": "string", "n": 0},
    # Vm.random*
    "randomUint()": {"kind": "fresh", "typ": "uint256", "n": -1},
    "randomUint(uint256)": {"kind": "fresh", "typ": "uint", "n": 0},
    "randomUint(uint256,uint256)": {"kind": "freshRange", "typ": "uint256", "n": 0},
    "randomInt()": {"kind": "fresh", "typ": "int256", "n": -1},
    "randomInt(uint256)": {"kind": "fresh", "typ": "int", "n": 0},
    "randomAddress()": {"kind": "fresh", "typ": "address", "n": -1},
    "randomBool()": {"kind": "fresh", "typ": "bool", "n": -1},
    "randomBytes(uint256)": {"kind": "fresh", "typ": "bytes", "n": 0},
    "randomBytes4()": {"kind": "fresh", "typ": "bytes4", "n": -1},
    "randomBytes8()": {"kind": "fresh", "typ": "bytes8", "n": -1},
}


def selector(sig: str) -> bytes:
    return keccak(sig.encode())[:4]


def assert_descriptor(sig: str) -> dict:
    m = re.match(r"^assert(\w+?)\((.*)\)$", sig)
    op, params = m.group(1), m.group(2).split(",")
    typ = params[0]
    arr = typ.endswith("[]")
    return {"kind": "assert", "op": op, "typ": typ.replace("[]", ""), "arr": arr, "n": -1}


def descriptors() -> list[dict]:
    out = []
    for sig in ASSERT_SIGS:
        d = assert_descriptor(sig)
        d["sel"] = list(selector(sig))
        d["sig"] = sig
        out.append(d)
    for sig, d in OTHER_SIGS.items():
        e = {"op": "", "typ": "", "arr": False, "n": -1}
        e.update(d)
        e["sel"] = list(selector(sig))
        e["sig"] = sig
        out.append(e)
    return out


DESCRIPTORS = descriptors()
BY_SIG = {d["sig"]: d for d in DESCRIPTORS}
