"""One-instruction programs: every word-level opcode under every operand representation.

Operand sources: "c" PUSH of a concrete word, "s" CALLDATALOAD (term-backed), "bs" a symbolic
boolean (result of a comparison on calldata), "bc" a concrete boolean (result of a comparison on
constants).  The program computes OP on the operands and returns the 256-bit result, through the real
SEVM.run dispatch.
"""

from __future__ import annotations

import random

from .asm import assemble
from .hrun import TARGET, Prog, Sym
from .progs import BOUNDARY, M256, compile_expr
from .wordops import OPS1, OPS2, OPS3

SRC = ["c", "s", "bs", "bc"]


def operand(src: str, k: int, rnd: random.Random, op: str, pos: int):
    if src == "c":
        if op in ("EXP",) and pos == 1:
            return ("c", rnd.choice([0, 1, 2, 3, 7, 64, 255, 256, 1000, 2**32, 2**200 + 5]))
        if op in ("SHL", "SHR", "SAR", "BYTE", "SIGNEXTEND") and pos == 0:
            return ("c", rnd.choice([0, 1, 7, 8, 30, 31, 32, 33, 255, 256, 257, 2**64, M256 - 1]))
        return ("c", rnd.choice(BOUNDARY + [rnd.getrandbits(256), rnd.getrandbits(64)]))
    if src == "s":
        return ("in", k)
    if src == "bs":
        return (rnd.choice(["LT", "GT", "SLT", "SGT", "EQ"]), ("in", k), ("c", rnd.choice([0, 1, 5, 2**255])))
    if src == "bc":
        return rnd.choice([("EQ", ("c", 1), ("c", 1)), ("LT", ("c", 2), ("c", 1)), ("ISZERO", ("c", 0)), ("ISZERO", ("c", 9))])
    if src == "bT":  # the literal true / false (a boolean shortcut may treat the two literals differently)
        return rnd.choice([("EQ", ("c", 1), ("c", 1)), ("ISZERO", ("c", 0))])
    if src == "bF":
        return rnd.choice([("LT", ("c", 2), ("c", 1)), ("ISZERO", ("c", 9))])
    raise ValueError(src)


def fam_oneop(rnd: random.Random, op: str, srcs: tuple, ninputs: int = 6):
    n = len(srcs)
    if "bc" in srcs and len(srcs) == 2:
        # both literals, in turn: fam_oneop is called once per literal by all_oneop
        raise ValueError("use bT / bF")
    ex = tuple(operand(s, i, rnd, op, i) for i, s in enumerate(srcs))
    code = assemble(compile_expr((op, *ex)) + [("PUSH", 0), "MSTORE", ("PUSH", 32), ("PUSH", 0), "RETURN"])
    names = [f"cd{i}" for i in range(3)]
    prog = Prog(accounts={TARGET: code}, calldata=[Sym(nm, 256) for nm in names], name=f"op-{op}-{'-'.join(srcs)}",
                meta={"expr": repr((op, *ex))})
    pool = BOUNDARY + [5, 6, 4, 30, 100, 254, 2**255 - 2]
    inputs = [{nm: 0 for nm in names}, {nm: M256 - 1 for nm in names}]
    while len(inputs) < ninputs:
        inputs.append({nm: rnd.choice(pool) if rnd.random() < 0.8 else rnd.getrandbits(256) for nm in names})
    return prog, inputs


def all_oneop(rnd: random.Random, per_combo: int = 1, ninputs: int = 6, sources=SRC):
    out = []
    for op in OPS1:
        for s in sources:
            for _ in range(per_combo):
                out.append(fam_oneop(rnd, op, (s,), ninputs))
    def expand(s):
        return ("bT", "bF") if s == "bc" else (s,)

    for op in OPS2:
        for s1 in sources:
            for s2 in sources:
                for t1 in expand(s1):
                    for t2 in expand(s2):
                        for _ in range(per_combo):
                            out.append(fam_oneop(rnd, op, (t1, t2), ninputs))
    for op in OPS3:
        for combo in [("c", "c", "c"), ("s", "s", "s"), ("c", "s", "c"), ("s", "c", "s"), ("s", "s", "c"), ("c", "c", "s"),
                      ("bs", "s", "s"), ("s", "bc", "s"), ("s", "s", "bs")]:
            for _ in range(per_combo):
                out.append(fam_oneop(rnd, op, combo, ninputs))
    return out
