"""A scripted stand-in for an SMT solver (property C05).

halmos starts it as  `<python> -S stub_solver.py <scenario.json> <dump_dir>/<fn>/<path_id>[.refined].smt2`.
The reply for a query is looked up under the key "<fn>/<basename>" in the scenario file:

  {"journal": "<file>",            every invocation appends one JSON line when it starts and one when it replies
   "ctl": "<dir>",                 release files for held replies: <ctl>/<fn>.<basename>.go
   "default": {"kind": "unsat"},   reply for queries that are not scripted
   "replies": {"<fn>/<basename>": {"kind": K, "hold": false, "delay_ms": 0, "core": "own"|"shared"|"empty"|"none"}}}

Reply kinds K (first line of stdout is what halmos dispatches on):
  sat_valid     "sat" + a model of the halmos calldata variables, exit 0
  sat_abstract  "sat" + a model that also interprets an f_evm_* abstraction (halmos: potentially invalid)
  unsat         "unsat" (+ an unsat core when the query asks for one), exit 0
  unsat_rc1     "unsat" + `(error "... model is not available")`, exit 1   (what z3 does on halmos' queries)
  unknown       "unknown", exit 0
  timeout       never answers (sleeps until it is killed)
  garbage       a first line that is not a verdict (followed by a line "unsat", which must not count), exit 0
  empty         no output at all, exit 0
  nonzero       an error message instead of a verdict (then a line "unsat"), exit 3
  crash         partial output, then the process kills itself (returncode -9)
A reply with "hold": true is not given before the release file exists (the harness creates it when the
scheduled completion point of that query is reached); a held process that is never released is killed
by halmos' own shutdown or ends after `hold_max_s` with the reply "garbage".

The module has no dependency outside the standard library and never imports halmos.
"""

import json
import os
import re
import sys
import time


def journal(path, rec):
    if not path:
        return
    line = (json.dumps(rec) + "\n").encode()
    fd = os.open(path, os.O_WRONLY | os.O_APPEND | os.O_CREAT, 0o644)
    try:
        os.write(fd, line)
    finally:
        os.close(fd)


def model_text(query: str, abstract: bool) -> str:
    """A model over the declared halmos variables (all zero except p0 = 0x2a)."""
    out = ["("]
    for m in re.finditer(r"\(declare-(?:fun|const) ((?:p|halmos)_[A-Za-z0-9_]+)(?: \(\))? \(_ BitVec (\d+)\)\)", query):
        name, bits = m.group(1), int(m.group(2))
        val = 0x2A if name.startswith("p_p0_") else 0
        digits = (bits + 3) // 4
        if bits % 4 == 0:
            lit = "#x" + format(val, f"0{digits}x")
        else:
            lit = "#b" + format(val, f"0{bits}b")
        out.append(f"  (define-fun {name} () (_ BitVec {bits}) {lit})")
    if abstract:
        out.append(
            "  (define-fun f_evm_bvudiv_256 ((x!0 (_ BitVec 256)) (x!1 (_ BitVec 256))) (_ BitVec 256)\n"
            "    #x" + "0" * 63 + "1)"
        )
    out.append(")")
    return "\n".join(out) + "\n"


def named_ids(query: str) -> list:
    return re.findall(r":named (<[0-9]+>)\)\)", query)


def main(argv) -> int:
    scen_file, qfile = argv[1], argv[-1]
    t0 = time.time()
    with open(scen_file) as f:
        scen = json.load(f)
    fn = os.path.basename(os.path.dirname(qfile))
    base = os.path.basename(qfile)
    key = f"{fn}/{base}"
    rep = scen.get("replies", {}).get(key) or scen.get("default") or {"kind": "unsat"}
    kind = rep["kind"]
    jr = scen.get("journal")
    try:
        with open(qfile) as f:
            query = f.read()
    except OSError:
        query = ""
    journal(jr, {"ev": "start", "q": key, "kind": kind, "t": t0, "pid": os.getpid()})

    if rep.get("hold"):
        go = os.path.join(scen.get("ctl", "."), f"{fn}.{base}.go")
        go_all = os.path.join(scen.get("ctl", "."), f"{fn}.all.go")
        deadline = t0 + float(scen.get("hold_max_s", 120))
        while not (os.path.exists(go) or os.path.exists(go_all)):
            if time.time() > deadline:
                journal(jr, {"ev": "hold-expired", "q": key, "t": time.time()})
                sys.stdout.write("stub: hold expired\n")
                return 0
            time.sleep(0.012)
    if rep.get("delay_ms"):
        time.sleep(rep["delay_ms"] / 1000.0)

    out, rc = "", 0
    if kind == "sat_valid":
        out = "sat\n" + model_text(query, abstract=False)
    elif kind == "sat_abstract":
        out = "sat\n" + model_text(query, abstract=True)
    elif kind in ("unsat", "unsat_rc1"):
        out = "unsat\n"
        if kind == "unsat_rc1":
            out += '(error "line 1 column 1: model is not available")\n'
            rc = 1
        if "(get-unsat-core)" in query and rep.get("core", "own") != "none":
            ids = named_ids(query)
            if rep.get("core") == "shared":
                ids = ids[: int(rep.get("shared_n", 1))]
            if rep.get("core") == "empty":
                ids = []
            out += "(" + " ".join(ids) + ")\n"
    elif kind == "unknown":
        out = "unknown\n"
    elif kind == "timeout":
        journal(jr, {"ev": "sleeping", "q": key, "t": time.time()})
        time.sleep(float(scen.get("timeout_sleep_s", 600)))
        out = "unknown\n"
    elif kind == "garbage":
        # (the first line is what counts: an answer word further down does not make this a verdict)
        out = "satisfiable? who knows\nunsat\n(model)\n"
    elif kind == "empty":
        out = ""
    elif kind == "nonzero":
        out = '(error "stub: out of memory")\nunsat\n'
        sys.stderr.write("stub: fatal error\n")
        rc = 3
    elif kind == "crash":
        sys.stdout.write("sa")
        sys.stdout.flush()
        journal(jr, {"ev": "reply", "q": key, "kind": kind, "t": time.time(), "t0": t0})
        os.kill(os.getpid(), 9)
        time.sleep(5)
    else:
        sys.stderr.write(f"stub: unknown reply kind {kind}\n")
        journal(jr, {"ev": "bad-kind", "q": key, "kind": kind, "t": time.time()})
        return 97
    sys.stdout.write(out)
    sys.stdout.flush()
    journal(jr, {"ev": "reply", "q": key, "kind": kind, "t": time.time(), "t0": t0})
    return rc


if __name__ == "__main__":
    sys.exit(main(sys.argv))
