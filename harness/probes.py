"""Hand-written probe programs with stable keys (`probe:<name>`): corners where halmos is known or
suspected to depart from the EVM.  A probe that disagrees with Evm.tla is reported under its stable
key, so that a recorded finding (KNOWN_FINDINGS.json) is recognised and anything new is not."""

from __future__ import annotations

from .asm import assemble
from .e1corpus import Item
from .hrun import TARGET, Prog, Sym

RET = [("PUSH", 0), "MSTORE", ("PUSH", 32), ("PUSH", 0), "RETURN"]
CALLEE = 0xCA11EE


def _p(name, body, inputs=None, accounts=None, **kw) -> Item:
    acc = {TARGET: assemble(body)}
    acc.update(accounts or {})
    return Item(Prog(accounts=acc, calldata=[Sym("cd0", 256), Sym("cd1", 256)], name=name, **kw), inputs or [{"cd0": 0, "cd1": 0}, {"cd0": 1, "cd1": 5}], key=f"probe:{name}")


def c02_probes() -> list[Item]:
    """Branches that halmos' shortcuts for 'practically infeasible' conditions might prune although an input takes them."""
    out = []
    # h = keccak(cd1); if (h + 5 + y < h) return 2 else return 1, the three-term sum written in every association:
    # for y = 2^256 - 6 the sum wraps to h - 1.  (The shortcut for `hash + small constant < hash`, the overflow of a dynamic
    # array over the end of storage, must not fire when the sum has a further, unbounded, term.)
    H = [("PUSH", 32), "CALLDATALOAD", ("PUSH", 0x200), "MSTORE", ("PUSH", 32), ("PUSH", 0x200), "SHA3"]
    Y = [("PUSH", 0), "CALLDATALOAD"]
    sums = {"h5y": H + [("PUSH", 5), "ADD"] + Y + ["ADD"], "y5h": Y + [("PUSH", 5), "ADD"] + H + ["ADD"], "yh5": Y + H + ["ADD", ("PUSH", 5), "ADD"],
            "5hy": [("PUSH", 5)] + H + ["ADD"] + Y + ["ADD"]}
    for nm, summ in sums.items():
        body = H + summ + ["LT", ("PUSHL", "wrap"), "JUMPI", ("PUSH", 1)] + RET + [("LABEL", "wrap"), ("PUSH", 2)] + RET
        out.append(_p(f"hash-plus-const-plus-symbol-wraps-{nm}", body,
                      inputs=[{"cd0": 0, "cd1": 3}, {"cd0": (1 << 256) - 6, "cd1": 3}, {"cd0": (1 << 256) - 6, "cd1": 0}, {"cd0": 1 << 255, "cd1": 1}, {"cd0": (1 << 256) - 1, "cd1": 2}]))
    # --symbolic-jump: a JUMP to a calldata word continues at every JUMPDEST the word can equal - and halts (invalid jump) for
    # every other value; the same JUMP reached on two paths with different constraints on the word (second program)
    j1 = [("PUSH", 0), "CALLDATALOAD", "JUMP", ("LABEL", "a"), ("PUSH", 1)] + RET + [("LABEL", "b"), ("PUSH", 2)] + RET
    j2 = [("PUSH", 0), "CALLDATALOAD", "DUP1", ("PUSH", 0x20), "GT", ("PUSHL", "lo"), "JUMPI", ("LABEL", "lo"), "JUMP", ("LABEL", "a"), ("PUSH", 1)] + RET + \
         ["INVALID"] * 30 + [("LABEL", "b"), ("PUSH", 2)] + RET
    for nm, body in (("symbolic-jump-targets", j1), ("symbolic-jump-two-paths", j2)):
        code = assemble(body)
        dests = [i for i, b in enumerate(code) if b == 0x5B]
        it = _p(nm, body, inputs=[{"cd0": d, "cd1": 0} for d in dests] + [{"cd0": 0, "cd1": 0}, {"cd0": 1, "cd1": 0}, {"cd0": 1 << 255, "cd1": 0}, {"cd0": len(code), "cd1": 0}])
        it.cli = ("--symbolic-jump",)
        out.append(it)
    # a CREATE2 onto an address that already holds an account fails (0 on the stack) and the creator goes on: both the colliding
    # and the fresh creation are outcomes with paths of their own
    init0 = assemble([("PUSH", 0), ("PUSH", 0), "RETURN"])

    def create2(salt_code):
        return [("PUSHN", len(init0), int.from_bytes(init0, "big")), ("PUSH", 0), "MSTORE"] + salt_code + [("PUSH", len(init0)), ("PUSH", 32 - len(init0)), ("PUSH", 0), "CREATE2"]

    body = create2([("PUSH", 7)]) + ["POP"] + [("PUSH", 0), "CALLDATALOAD", ("PUSHL", "fresh"), "JUMPI"] + create2([("PUSH", 7)]) + RET + \
        [("LABEL", "fresh")] + create2([("PUSH", 9)]) + ["ISZERO", "ISZERO"] + RET
    out.append(_p("create2-address-collision", body, inputs=[{"cd0": 0, "cd1": 0}, {"cd0": 1, "cd1": 0}, {"cd0": 1 << 255, "cd1": 0}]))
    # the two-term form is the documented assumption (hashes lie below 2^256 - 2^64): no input can take the branch
    body = H + H + [("PUSH", 5), "ADD", "LT", ("PUSHL", "wrap"), "JUMPI", ("PUSH", 1)] + RET + [("LABEL", "wrap"), ("PUSH", 2)] + RET
    out.append(_p("hash-plus-const-wraps", body, inputs=[{"cd0": 0, "cd1": 3}, {"cd0": 7, "cd1": 0}]))
    return out


def c01_probes() -> list[Item]:
    out = []
    # MSIZE counts memory that was only read (MLOAD at 0x40 expands memory to 0x60)
    out.append(_p("msize-after-read", [("PUSH", 0x40), "MLOAD", "POP", "MSIZE"] + RET))
    # MSIZE after writes only: must be exact
    out.append(_p("msize-after-write", [("PUSH", 1), ("PUSH", 0x45), "MSTORE8", "MSIZE"] + RET))
    # RETURNDATACOPY with size 0 beyond the (empty) return data halts exceptionally (EIP-211)
    out.append(_p("returndatacopy-zero-size-oob", [("PUSH", 0), ("PUSH", 1), ("PUSH", 0), "RETURNDATACOPY", ("PUSH", 7)] + RET))
    # in-bounds zero-size copy is fine
    out.append(_p("returndatacopy-zero-size-inbounds", [("PUSH", 0), ("PUSH", 0), ("PUSH", 0), "RETURNDATACOPY", ("PUSH", 7)] + RET))
    # the 1025th stack item overflows the stack
    loop = [("PUSH", 0), ("LABEL", "h"), "DUP1", ("PUSH", 1100), "EQ", ("PUSHL", "x"), "JUMPI", ("PUSH", 1), "ADD", "DUP1", ("PUSHL", "h"), "JUMP",
            ("LABEL", "x"), ("PUSH", 9)] + RET
    out.append(_p("stack-limit-1024", loop))
    # a conditional jump to an invalid destination halts only the inputs that satisfy the condition
    out.append(_p("jumpi-invalid-dest", [("PUSH", 0), "CALLDATALOAD", ("PUSH", 3), "JUMPI", ("PUSH", 7)] + RET,
                  inputs=[{"cd0": 0, "cd1": 0}, {"cd0": 1, "cd1": 0}, {"cd0": 2**255, "cd1": 0}]))
    # CALL with value inside a static frame is a state modification: the static frame halts
    callee = assemble([("PUSH", 0), ("PUSH", 0), ("PUSH", 0), ("PUSH", 0), ("PUSH", 1), ("PUSH", 0xBEEF), ("PUSH", 0xFFFF), "CALL"] + RET)
    out.append(_p("static-call-with-value",
                  [("PUSH", 32), ("PUSH", 0x40), ("PUSH", 0), ("PUSH", 0), ("PUSH", CALLEE), ("PUSH", 0xFFFFF), "STATICCALL",
                   ("PUSH", 0x60), "MSTORE", ("PUSH", 0xBEEF), "BALANCE", ("PUSH", 0x80), "MSTORE", ("PUSH", 0x80), ("PUSH", 0x40), "RETURN"],
                  accounts={CALLEE: callee}, balances={CALLEE: 10}))
    # TSTORE is a state modification too: inside a static frame it halts the frame (EIP-1153), directly and one call deeper
    tw = assemble([("PUSH", 0x2A), ("PUSH", 0), "TSTORE", "STOP"])
    relay = assemble([("PUSH", 0), ("PUSH", 0), ("PUSH", 0), ("PUSH", 0), ("PUSH", 0), ("PUSH", CALLEE), ("PUSH", 0xFFFF), "CALL"] + RET)
    out.append(_p("static-tstore",
                  [("PUSH", 0), ("PUSH", 0), ("PUSH", 0), ("PUSH", 0), ("PUSH", CALLEE), ("PUSH", 0xFFFFF), "STATICCALL", ("PUSH", 0x40), "MSTORE",
                   ("PUSH", 32), ("PUSH", 0x60), ("PUSH", 0), ("PUSH", 0), ("PUSH", CALLEE + 1), ("PUSH", 0xFFFFF), "STATICCALL", ("PUSH", 0x80), "MSTORE",
                   ("PUSH", 0x60), ("PUSH", 0x40), "RETURN"],
                  accounts={CALLEE: tw, CALLEE + 1: relay}))
    # the return-data buffer after a creation (EIP-211): the revert data of the init code if it reverted, empty if it succeeded
    init_rev = assemble([("PUSH", 0xBAD), ("PUSH", 0), "MSTORE", ("PUSH", 32), ("PUSH", 0), "REVERT"])
    init_ok = assemble([("PUSH", 0), ("PUSH", 0), "RETURN"])
    for nm, init in (("reverted", init_rev), ("succeeded", init_ok)):
        out.append(_p(f"returndata-after-{nm}-create",
                      [("PUSHN", len(init), int.from_bytes(init, "big")), ("PUSH", 0), "MSTORE",
                       ("PUSH", len(init)), ("PUSH", 32 - len(init)), ("PUSH", 0), "CREATE", ("PUSH", 0x40), "MSTORE",
                       "RETURNDATASIZE", ("PUSH", 0x60), "MSTORE", "RETURNDATASIZE", ("PUSH", 0), ("PUSH", 0x80), "RETURNDATACOPY",
                       ("PUSH", 0x80), ("PUSH", 0x40), "RETURN"]))
    # EXTCODECOPY from an account without code writes `size` zero bytes over dirty memory
    out.append(_p("extcodecopy-no-code",
                  [("PUSHN", 32, (1 << 256) - 1), ("PUSH", 0), "MSTORE", ("PUSH", 32), ("PUSH", 5), ("PUSH", 0), ("PUSH", 0x9999), "EXTCODECOPY", ("PUSH", 0), "MLOAD"] + RET))
    # CODECOPY straddling the end of the code zero-fills
    out.append(_p("codecopy-past-end",
                  [("PUSHN", 32, (1 << 256) - 1), ("PUSH", 0), "MSTORE", ("PUSH", 32), ("PUSH", 4), "CODESIZE", "SUB", ("PUSH", 0), "CODECOPY", ("PUSH", 0), "MLOAD"] + RET))
    # after a conditional jump to an invalid destination the fall-through goes on under the negated condition:
    # if (x < 10) invalid; if (x > 20) return 0xA else return 0xB
    out.append(_p("jumpi-invalid-then-branch",
                  [("PUSH", 10), ("PUSH", 0), "CALLDATALOAD", "LT", ("PUSH", 0xFFFF), "JUMPI",
                   ("PUSH", 20), ("PUSH", 0), "CALLDATALOAD", "GT", ("PUSHL", "a"), "JUMPI", ("PUSH", 0xB)] + RET + [("LABEL", "a"), ("PUSH", 0xA)] + RET,
                  inputs=[{"cd0": 5, "cd1": 0}, {"cd0": 15, "cd1": 0}, {"cd0": 25, "cd1": 0}, {"cd0": 2**255, "cd1": 0}, {"cd0": 20, "cd1": 0}]))
    # a loop whose head is the JUMPDEST at pc 0: the backward JUMP must land there
    # a callee that returns (or reverts with) fewer bytes than the caller's output area leaves the rest of the area as it was
    short_ret = assemble([("PUSH", 0x1111), ("PUSH", 0), "MSTORE", ("PUSH", 32), ("PUSH", 0), "RETURN"])
    short_rev = assemble([("PUSHN", 4, 0xDEADBEEF), ("PUSH", 0), "MSTORE", ("PUSH", 4), ("PUSH", 28), "REVERT"])
    for nm, cal in (("return", short_ret), ("revert", short_rev)):
        out.append(_p(f"short-{nm}-keeps-output-area",
                      [("PUSH", 0), "CALLDATALOAD", ("PUSH", 0x40), "MSTORE", ("PUSH", 32), "CALLDATALOAD", ("PUSH", 0x60), "MSTORE",
                       ("PUSH", 64), ("PUSH", 0x40), ("PUSH", 0), ("PUSH", 0), ("PUSH", 0), ("PUSH", CALLEE), ("PUSH", 0xFFFFF), "CALL", ("PUSH", 0x80), "MSTORE",
                       ("PUSH", 0x60), ("PUSH", 0x40), "RETURN"],
                      accounts={CALLEE: cal}, inputs=[{"cd0": 0, "cd1": 0}, {"cd0": 7, "cd1": 9}, {"cd0": (1 << 256) - 1, "cd1": 1 << 255}]))
    # CODESIZE inside init code is the size of the init code (the account under construction has no code yet); inside a
    # DELEGATECALL frame it is the size of the callee's code
    init_cs = assemble(["CODESIZE", ("PUSH", 0), "MSTORE", ("PUSH", 32), ("PUSH", 0), "RETURN"])
    lib = assemble(["CODESIZE", ("PUSH", 0), "MSTORE", ("PUSH", 32), ("PUSH", 0), "RETURN"] + ["STOP"] * 5)
    out.append(_p("codesize-in-initcode-and-delegatecall",
                  [("PUSHN", len(init_cs), int.from_bytes(init_cs, "big")), ("PUSH", 0), "MSTORE", ("PUSH", len(init_cs)), ("PUSH", 32 - len(init_cs)), ("PUSH", 0), "CREATE",
                   ("PUSH", 32), ("PUSH", 0), ("PUSH", 0x40), "DUP4", "EXTCODECOPY", "POP",
                   ("PUSH", 32), ("PUSH", 0x60), ("PUSH", 0), ("PUSH", 0), ("PUSH", CALLEE), ("PUSH", 0xFFFFF), "DELEGATECALL", "POP",
                   "CODESIZE", ("PUSH", 0x80), "MSTORE", ("PUSH", 0x60), ("PUSH", 0x40), "RETURN"],
                  accounts={CALLEE: lib}))
    # inside init code the call data is empty: CALLDATASIZE is 0, CALLDATALOAD and CALLDATACOPY read zeros (not the init code)
    init_cd = assemble([("PUSHN", 32, (1 << 256) - 1), ("PUSH", 0), "MSTORE", ("PUSH", 32), ("PUSH", 0), ("PUSH", 0), "CALLDATACOPY",
                        "CALLDATASIZE", ("PUSH", 32), "MSTORE", ("PUSH", 0), "CALLDATALOAD", ("PUSH", 64), "MSTORE", ("PUSH", 96), ("PUSH", 0), "RETURN"])
    out.append(_p("calldata-in-initcode",
                  [("PUSHL", "ic_end"), ("PUSHL", "ic"), "SWAP1", "SUB", "DUP1", ("PUSHL", "ic"), ("PUSH", 0x100), "CODECOPY", ("PUSH", 0x100), ("PUSH", 0), "CREATE",
                   ("PUSH", 96), ("PUSH", 0), ("PUSH", 0x40), "DUP4", "EXTCODECOPY", "POP", ("PUSH", 96), ("PUSH", 0x40), "RETURN",
                   ("MARK", "ic"), ("RAW", init_cd), ("MARK", "ic_end")]))
    # RETURNDATACOPY from a non-zero offset of the return data (three words: 0xAAAA, cd0, cd1), in front of / over dirty memory
    three = assemble([("PUSH", 0xAAAA), ("PUSH", 0), "MSTORE", ("PUSH", 0), "CALLDATALOAD", ("PUSH", 32), "MSTORE", ("PUSH", 32), "CALLDATALOAD", ("PUSH", 64), "MSTORE",
                      ("PUSH", 96), ("PUSH", 0), "RETURN"])
    for dst, off, size in ((0x40, 32, 64), (0x48, 4, 40), (0x140, 64, 32), (0x40, 0, 96)):
        out.append(_p(f"returndatacopy-offset-{off}-{size}",
                      [("PUSHN", 32, (1 << 256) - 1), "DUP1", ("PUSH", 0x40), "MSTORE", "DUP1", ("PUSH", 0x60), "MSTORE", ("PUSH", 0x80), "MSTORE",
                       ("PUSH", 0), "CALLDATALOAD", ("PUSH", 0x200), "MSTORE", ("PUSH", 32), "CALLDATALOAD", ("PUSH", 0x220), "MSTORE",
                       ("PUSH", 0), ("PUSH", 0), ("PUSH", 64), ("PUSH", 0x200), ("PUSH", 0), ("PUSH", CALLEE), ("PUSH", 0xFFFFF), "CALL", "POP",
                       ("PUSH", size), ("PUSH", off), ("PUSH", dst), "RETURNDATACOPY", "MSIZE", ("PUSH", 0x1C0), "MSTORE", ("PUSH", 0x1A0), ("PUSH", 0x40), "RETURN"],
                      accounts={CALLEE: three}, inputs=[{"cd0": 0, "cd1": 0}, {"cd0": 0x1234, "cd1": 0x5678}, {"cd0": (1 << 256) - 2, "cd1": 1 << 255}]))
    # two elements of the array at slot 1 addressed by PUSH32 constants keccak(1) + i (a hash of halmos' precomputed table,
    # never computed at run time here): a store to one element does not change the other
    from eth_hash.auto import keccak

    b1 = int.from_bytes(keccak((1).to_bytes(32, "big")), "big")
    out.append(_p("precomputed-hash-const-offsets",
                  [("PUSH", 0), "CALLDATALOAD", ("PUSHN", 32, b1 + 1), "SSTORE", ("PUSH", 0x22), ("PUSHN", 32, b1), "SSTORE", ("PUSHN", 32, b1 + 1), "SLOAD"] + RET,
                  inputs=[{"cd0": 0, "cd1": 0}, {"cd0": 0x77, "cd1": 0}, {"cd0": (1 << 256) - 3, "cd1": 0}]))
    # CALLDATACOPY of a window of calldata after the path has pinned a calldata word by an equality (the copied chunk is a part of
    # a word that the path's Concretization rewrites to a constant): exactly `size` bytes at `dst` change, the rest of memory stays
    K = 0xA0A1A2A3A4A5A6A7A8A9AAABACADAEAFB0B1B2B3B4B5B6B7B8B9BABBBCBDBEBF
    for dst, off, size in ((8, 2, 4), (8, 30, 4), (40, 0, 32), (3, 17, 40), (0, 31, 1)):
        tail = [("PUSHN", 32, int("11" * 32, 16)), ("PUSH", 0), "MSTORE", ("PUSHN", 32, int("22" * 32, 16)), ("PUSH", 32), "MSTORE", ("PUSHN", 32, int("33" * 32, 16)), ("PUSH", 64), "MSTORE",
                ("PUSH", size), ("PUSH", off), ("PUSH", dst), "CALLDATACOPY", "MSIZE", ("PUSH", 96), "MSTORE", ("PUSH", 128), ("PUSH", 0), "RETURN"]
        out.append(_p(f"calldatacopy-window-after-pin-{dst}-{off}-{size}",
                      [("PUSH", 0), "CALLDATALOAD", ("PUSHN", 32, K), "EQ", ("PUSHL", "pinned"), "JUMPI"] + tail + [("LABEL", "pinned")] + tail,
                      inputs=[{"cd0": K, "cd1": int("c1" * 32, 16)}, {"cd0": K, "cd1": 0}, {"cd0": K + 1, "cd1": int("d2" * 32, 16)}, {"cd0": 0, "cd1": 1}]))
    out += c02_probes()
    out.append(_p("loop-head-at-pc0",
                  [("LABEL", "h"), ("PUSH", 0), "MLOAD", ("PUSHL", "x"), "JUMPI", ("PUSH", 1), ("PUSH", 0), "MSTORE", ("PUSHL", "h"), "JUMP", "INVALID",
                   ("LABEL", "x"), ("PUSH", 0xC1)] + RET))
    return out
