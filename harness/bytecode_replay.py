"""C19 - replay of the decodings computed by TLC from spec/Bytecode.tla into halmos' real `Contract`.

TLC (spec/BytecodeRun.tla) prints, for every enumerated / supplied code, the tuple
    [id, code, n, B, I, E, J, S, fs, U]
(see the header of BytecodeRun.tla).  A code is a list of byte values, -1 (SYM) = an opaque byte.
For each record the real `halmos.contract.Contract` is built in several *representations*

    bytes   Contract(bytes)                       fully concrete codes
    hex     Contract.from_hexcode(hex)            fully concrete codes
    chunks  Contract(ByteVec([bytes, x_i, ...]))  concrete runs as bytes, every opaque byte a fresh 8-bit symbol
    runs    Contract(ByteVec([bytes, W_i, ...]))  every run of opaque bytes one fresh wide symbol
    concat  Contract(Concat(BitVecVal.., x_i..))  one z3 term (as in tests/test_cli.py::test_decode)

and read back through the public API only: len(), valid_jumpdests(), decode_instruction(pc), next_pc(pc),
__getitem__, slice(), unwrapped_slice().  Values are compared by meaning: an int, a z3 numeral and a
HalmosBitVec with the same value are the same; a symbolic byte must be (provably) the symbol that was
put at that position.

What is left unconstrained (accepted whatever halmos does):
  * decoding beyond an instruction boundary whose opcode is opaque (`fs`): boundaries and destinations
    from there on are only bounded from above by U (a position that is not 5b/opaque, or lies beyond
    the code, can be a destination in no instance);
  * how an opaque opcode is reported by decode_instruction (NotConcreteError or a symbolic opcode term);
  * pc / next_pc of the implicit STOP beyond the end (halmos returns the Instruction.STOP singleton).
Any other exception, on any code, is a disagreement.
"""

from __future__ import annotations

import json
import random
import re
import traceback
from dataclasses import dataclass, field

import z3

from .common import MachineryError, NCPU, repo_python_path, run_tlc

repo_python_path()

from halmos.bitvec import HalmosBitVec as BV  # noqa: E402
from halmos.bytevec import ByteVec  # noqa: E402
from halmos.contract import Contract  # noqa: E402
from halmos.exceptions import NotConcreteError  # noqa: E402

SYM = -1
ALPHABET = (0x00, 0x5B, 0x5F, 0x60, 0x61, 0x7F, 0x56, 0x01)
MODULE = "BytecodeRun"

# record fields
F_ID, F_CODE, F_N, F_B, F_I, F_E, F_J, F_S, F_FS, F_U = range(10)

CONCRETE_REPRS = ("bytes", "hex", "view0", "view")
SYMBOLIC_REPRS = ("chunks", "runs", "concat", "viewchunks")
JUNK = bytes([0x5B, 0x60, 0x5B, 0x5B, 0x7F, 0x5B, 0x00, 0x5B]) * 5


def code_hex(code) -> str:
    return "".join("??" if b == SYM else f"{b:02x}" for b in code) or "(empty)"


# ---------------------------------------------------------------------------------------------
# TLC side


def tlc_enum(cfg: str, work, *, coverage: bool = False, expect_violation: bool = False, heap: str = "3g"):
    """Run the exhaustive enumeration; returns (records, TLCResult).  With expect_violation the run
    continues after a violated invariant and TLCResult.violated is the sorted list of all of them."""
    stub = work / "bytecode_stub.json"
    if not stub.exists():
        stub.write_text('{"cases": []}')
    r = run_tlc(MODULE, cfg, work=work, env={"BYTECODE_IN": str(stub)}, coverage=coverage,
                expect_violation=True, heap=heap, extra=["-continue"] if expect_violation else None)
    if expect_violation:
        r.violated = sorted(set(re.findall(r"Error: Invariant (\S+) is violated", r.stdout)))
        return [], r
    if r.violated:
        raise MachineryError(f"BytecodeRun ({cfg}): {r.violated} - the specification fails its own invariant\n{r.stdout[-3000:]}")
    recs = [rec for group in r.records for rec in group]
    return recs, r


def tlc_file(cases: list[dict], work, tag: str, *, coverage: bool = False, heap: str = "4g"):
    """Expected decodings of the given codes ([{id, code, sl}]); returns ({id: record}, TLCResult)."""
    f = work / f"bytecode_in_{tag}.json"
    f.write_text(json.dumps({"cases": cases}))
    r = run_tlc(MODULE, "MC_Bytecode_file.cfg", work=work, env={"BYTECODE_IN": str(f)}, coverage=coverage,
                expect_violation=True, heap=heap)
    if r.violated:
        raise MachineryError(f"BytecodeRun (file): {r.violated} - the specification fails its own invariant\n{r.stdout[-3000:]}")
    out = {}
    for group in r.records:
        for rec in group:
            out[rec[F_ID]] = rec
    missing = [c["id"] for c in cases if c["id"] not in out]
    if missing:
        raise MachineryError(f"TLC printed no record for cases {missing[:5]} ...")
    return out, r


# ---------------------------------------------------------------------------------------------
# building the real Contract


def runs_of(code):
    """[(start, is_sym, [bytes...])] maximal runs of concrete / opaque bytes."""
    out = []
    i, n = 0, len(code)
    while i < n:
        j = i
        s = code[i] == SYM
        while j < n and (code[j] == SYM) == s:
            j += 1
        out.append((i, s, code[i:j]))
        i = j
    return out


@dataclass
class Built:
    contract: object
    sym: dict  # position -> z3 term (8 bit) that halmos must report for that byte
    repr: str


def build(code, rep: str, uid: str = "") -> Built:
    """The Contract for `code` in representation `rep` (fresh symbols named by position)."""
    n = len(code)
    if rep == "bytes":
        return Built(Contract(bytes(code)), {}, rep)
    if rep == "hex":
        return Built(Contract.from_hexcode(bytes(code).hex()), {}, rep)
    if rep == "bv":
        return Built(Contract(z3.BitVecVal(int.from_bytes(bytes(code), "big"), 8 * n)) if n else Contract(b""), {}, rep)
    if rep in ("view0", "view"):
        # the code is a non-copying window of a longer buffer whose other bytes (JUMPDESTs, PUSHes) are not code:
        # memory[0:n] returned by an init code, a slice of calldata
        pre = b"" if rep == "view0" else JUNK[: 1 + n % 5]
        buf = pre + bytes(code) + JUNK
        return Built(Contract(ByteVec(buf).slice(len(pre), len(pre) + n)), {}, rep)
    sym = {}
    if rep == "viewchunks":
        # like "chunks", every concrete run being a window of a longer buffer
        bv = ByteVec()
        for start, s, bs in runs_of(code):
            if s:
                for k in range(len(bs)):
                    x = z3.BitVec(f"c19_x{start + k}{uid}", 8)
                    sym[start + k] = x
                    bv.append(x)
            else:
                pre = b"" if start == 0 else JUNK[: 1 + start % 3]
                bv.append(ByteVec(pre + bytes(bs) + JUNK).slice(len(pre), len(pre) + len(bs)))
        return Built(Contract(bv), sym, rep)
    if rep == "chunks":
        bv = ByteVec()
        for start, s, bs in runs_of(code):
            if s:
                for k in range(len(bs)):
                    x = z3.BitVec(f"c19_x{start + k}{uid}", 8)
                    sym[start + k] = x
                    bv.append(x)
            else:
                bv.append(bytes(bs))
        return Built(Contract(bv), sym, rep)
    if rep == "runs":
        bv = ByteVec()
        for start, s, bs in runs_of(code):
            if s:
                m = len(bs)
                w = z3.BitVec(f"c19_w{start}_{m}{uid}", 8 * m)
                for k in range(m):
                    lo = 8 * (m - 1 - k)
                    sym[start + k] = w if m == 1 else z3.Extract(lo + 7, lo, w)
                bv.append(w)
            else:
                bv.append(bytes(bs))
        return Built(Contract(bv), sym, rep)
    if rep == "concat":
        parts = []
        for start, s, bs in runs_of(code):
            m = len(bs)
            if not s:
                if m <= 8:
                    parts += [z3.BitVecVal(b, 8) for b in bs]
                else:
                    parts.append(z3.BitVecVal(int.from_bytes(bytes(bs), "big"), 8 * m))
            elif m <= 8:
                for k in range(m):
                    x = z3.BitVec(f"c19_x{start + k}{uid}", 8)
                    sym[start + k] = x
                    parts.append(x)
            else:
                w = z3.BitVec(f"c19_w{start}_{m}{uid}", 8 * m)
                for k in range(m):
                    lo = 8 * (m - 1 - k)
                    sym[start + k] = z3.Extract(lo + 7, lo, w)
                parts.append(w)
        if not parts:
            return Built(Contract(b""), sym, rep)
        term = parts[0] if len(parts) == 1 else z3.Concat(*parts)
        return Built(Contract(term), sym, rep)
    raise ValueError(rep)


def reprs_for(code, *, full: bool = True):
    if SYM in code:
        return SYMBOLIC_REPRS
    return CONCRETE_REPRS if full else ("bytes",)


# ---------------------------------------------------------------------------------------------
# comparison by meaning


def norm(v):
    """int, or a simplified z3 bit-vector term."""
    if isinstance(v, bool):
        return int(v)
    if isinstance(v, int):
        return v
    if isinstance(v, bytes | bytearray):
        return int.from_bytes(v, "big")
    if isinstance(v, BV):
        v = v.value
        return norm(v)
    if hasattr(v, "unwrap") and not z3.is_expr(v):
        return norm(v.unwrap())
    if z3.is_bv_value(v):
        return v.as_long()
    if z3.is_bv(v):
        s = z3.simplify(v)
        return s.as_long() if z3.is_bv_value(s) else s
    raise TypeError(f"unexpected value {type(v).__name__}: {v!r}")


_solver = None


def same(got, want, bits: int) -> bool:
    """got: value returned by halmos; want: int or z3 term of `bits` bits."""
    try:
        g = norm(got)
    except TypeError:
        return False
    w = norm(want)
    if isinstance(g, int) and isinstance(w, int):
        return g == w
    if isinstance(g, int) != isinstance(w, int):
        # a symbolic term can only mean a constant if it simplifies to it (norm did simplify)
        return False
    if g.size() != w.size():
        return False
    if z3.eq(g, w):
        return True
    global _solver
    if _solver is None:
        _solver = z3.Solver()
        _solver.set(timeout=5000)
    _solver.push()
    try:
        _solver.add(g != w)
        return _solver.check() == z3.unsat
    finally:
        _solver.pop()


def want_bytes(bs, off: int, code, sym: dict):
    """Expected value of the byte string `bs` (TLC's CodeSlice/PushArg, SYM entries are code[off + i])
    as an int or a z3 term of 8*len(bs) bits."""
    if not bs:
        return 0
    if SYM not in bs:
        return int.from_bytes(bytes(bs), "big")
    parts = []
    run = []
    for i, b in enumerate(bs):
        if b == SYM:
            if run:
                parts.append(z3.BitVecVal(int.from_bytes(bytes(run), "big"), 8 * len(run)))
                run = []
            parts.append(sym[off + i])
        else:
            run.append(b)
    if run:
        parts.append(z3.BitVecVal(int.from_bytes(bytes(run), "big"), 8 * len(run)))
    return parts[0] if len(parts) == 1 else z3.Concat(*parts)


class Api:
    """The public calls the comparison goes through (subclassed by the negative controls)."""

    def jumpdests(self, c):
        return c.valid_jumpdests()

    def decode(self, c, pc):
        return c.decode_instruction(pc)

    def next_pc(self, c, pc):
        return c.next_pc(pc)

    def getitem(self, c, pc):
        return c[pc]

    def length(self, c):
        return len(c)

    def slice(self, c, off, size):
        return c.slice(off, size)

    def unwrapped_slice(self, c, start, stop):
        return c.unwrapped_slice(start, stop)


class ForgetsPushData(Api):
    """Negative control: a jump-destination scan that does not skip PUSH operands."""

    def jumpdests(self, c):
        out = set()
        for pc in range(len(c)):
            b = c[pc]
            if isinstance(b, int) and b == 0x5B:
                out.add(pc)
        return out


class NoZeroPadding(Api):
    """Negative control: reads past the end return the last byte instead of zero."""

    def slice(self, c, off, size):
        r = c.slice(off, size)
        n = len(c)
        if n and off + size > n:
            r = r.copy() if hasattr(r, "copy") else r
            r.set_byte(size - 1, 0xEE)
        return r


MAX_SYM_ITEMS = 48  # symbolic positions read with __getitem__ per long code


def compare(rec, code, built: Built, api: Api = Api(), *, light: bool = False) -> list:
    """Disagreements [(field, detail)] between the record and the real Contract."""
    dis = []
    c, sym = built.contract, built.sym
    n = rec[F_N]
    fs = rec[F_FS]

    def guard(fieldname, fn):
        try:
            return True, fn()
        except Exception as e:  # noqa: BLE001 - every escaping exception is an observation
            dis.append((fieldname, f"raised {type(e).__name__}: {e}"))
            return False, None

    # length
    ok, ln = guard("len", lambda: api.length(c))
    if ok and ln != n:
        dis.append(("len", f"len() = {ln}, specification {n}"))

    # valid jump destinations
    ok, jd = guard("jumpdests", lambda: api.jumpdests(c))
    if ok:
        try:
            jd = set(jd)
        except TypeError:
            dis.append(("jumpdests", f"not a set: {jd!r}"))
            jd = None
    if ok and jd is not None:
        want = set(rec[F_J])
        bound = fs if fs >= 0 else n + (1 << 62)
        det = {d for d in jd if d < bound}
        if det != want:
            missing, extra = sorted(want - det), sorted(det - want)
            if missing:
                dis.append(("jumpdests-missing", f"genuine JUMPDEST(s) {missing} not in valid_jumpdests() = {sorted(jd)}"))
            if extra:
                dis.append(("jumpdests-extra", f"valid_jumpdests() contains {extra}, which are not instruction-boundary JUMPDESTs (specification: {sorted(want)})"))
        imp = sorted(d for d in jd if d >= bound and d not in set(rec[F_U]))
        if imp:
            dis.append(("jumpdests-impossible", f"valid_jumpdests() contains {imp}: a destination in no instance of the code"))

    # instructions at the boundaries
    for ins in rec[F_I]:
        pc = ins[0]
        if ins[1] == SYM:
            try:
                got = api.decode(c, pc)
            except NotConcreteError:
                continue
            except Exception as e:  # noqa: BLE001
                dis.append(("decode-sym", f"decode_instruction({pc}) on an opaque opcode raised {type(e).__name__}: {e}"))
                continue
            if got is None or not same(got.opcode, sym[pc], 8):
                dis.append(("decode-sym", f"decode_instruction({pc}) on an opaque opcode returned {got!r}"))
            continue
        _, op, nxt, arg = ins
        ok, got = guard("decode", lambda: api.decode(c, pc))
        if not ok:
            continue
        if not same(got.opcode, op, 8):
            dis.append(("decode-opcode", f"pc {pc}: opcode {got.opcode!r}, specification {op:#x}"))
            continue
        if got.pc != pc:
            dis.append(("decode-pc", f"pc {pc}: Instruction.pc = {got.pc}"))
        if got.next_pc != nxt:
            dis.append(("decode-nextpc", f"pc {pc}: next_pc {got.next_pc}, specification {nxt}"))
        ok, l1 = guard("decode-len", lambda: len(got))
        if ok and l1 != nxt - pc:
            dis.append(("decode-len", f"pc {pc}: len(insn) {l1}, specification {nxt - pc}"))
        ok, n2 = guard("next_pc", lambda: api.next_pc(c, pc))
        if ok and n2 != nxt:
            dis.append(("next_pc", f"next_pc({pc}) = {n2}, specification {nxt}"))
        if arg:
            opnd = got.operand
            if not isinstance(opnd, BV) or opnd.size != 256:
                dis.append(("decode-operand", f"pc {pc}: operand {opnd!r} is not a 256-bit HalmosBitVec"))
            else:
                want = want_bytes(arg, pc + 1, code, sym)
                if not isinstance(want, int):
                    want = z3.ZeroExt(256 - want.size(), want) if want.size() < 256 else want
                if not same(opnd, want, 256):
                    dis.append(("decode-operand", f"pc {pc}: operand {opnd!r}, specification bytes {arg} (right-padded with zeros)"))
        elif got.operand is not None:
            dis.append(("decode-operand", f"pc {pc}: operand {got.operand!r} on an instruction without immediate"))
        # the cached instruction is the same one
        ok, again = guard("decode", lambda: api.decode(c, pc))
        if ok and again is not got:
            dis.append(("decode-cache", f"pc {pc}: a second decode_instruction returned another object"))

    # the implicit STOP beyond the end
    for k, want_op in zip((n, n + 1, n + 33), rec[F_E]):
        ok, got = guard("beyond-decode", lambda: api.decode(c, k))
        if ok and (got is None or not same(got.opcode, want_op, 8) or got.operand is not None):
            dis.append(("beyond-decode", f"decode_instruction({k}) beyond the end (len {n}) = {got!r}, specification opcode {want_op}"))
        ok, b = guard("beyond-getitem", lambda: api.getitem(c, k))
        if ok and not same(b, want_op, 8):
            dis.append(("beyond-getitem", f"code[{k}] beyond the end (len {n}) = {b!r}, specification {want_op}"))

    # bytes
    positions = range(len(code))
    if light and n > 96:
        symp = [p for p in positions if code[p] == SYM]
        conp = [p for p in positions if code[p] != SYM]
        step = max(1, len(symp) // MAX_SYM_ITEMS)
        cstep = max(1, len(conp) // 512)
        positions = sorted(set(symp[::step]) | set(conp[::cstep]) | {0, n - 1})
    for p in positions:
        ok, b = guard("getitem", lambda: api.getitem(c, p))
        if not ok:
            break
        want = sym[p] if code[p] == SYM else code[p]
        if not same(b, want, 8):
            dis.append(("getitem", f"code[{p}] = {b!r}, specification {'opaque byte ' + str(want) if code[p] == SYM else want}"))
            break

    # slices
    for off, size, bs in rec[F_S]:
        ok, sl = guard("slice", lambda: api.slice(c, off, size))
        if ok:
            try:
                if len(sl) != size:
                    dis.append(("slice-len", f"slice({off}, {size}) has length {len(sl)}"))
                elif size:
                    want = want_bytes(bs, off, code, sym)
                    if not same(sl.unwrap(), want, 8 * size):
                        dis.append(("slice", f"slice({off}, {size}) = {sl!r}, specification {bs} (len {n})"))
                    elif size <= 8:
                        for i in range(size):
                            wb = sym[off + i] if bs[i] == SYM else bs[i]
                            if not same(sl.get_byte(i), wb, 8):
                                dis.append(("slice-byte", f"slice({off}, {size}).get_byte({i}) = {sl.get_byte(i)!r}, specification {bs}"))
                                break
            except Exception as e:  # noqa: BLE001
                dis.append(("slice", f"reading slice({off}, {size}) raised {type(e).__name__}: {e}"))
        if size:
            ok, us = guard("unwrapped_slice", lambda: api.unwrapped_slice(c, off, off + size))
            if ok:
                want = want_bytes(bs, off, code, sym)
                if not isinstance(us, BV) or us.size != 8 * size or not same(us, want, 8 * size):
                    dis.append(("unwrapped_slice", f"unwrapped_slice({off}, {off + size}) = {us!r}, specification {bs} (len {n})"))
    return dis


# ---------------------------------------------------------------------------------------------
# batch replay (multiprocessing)


@dataclass
class ReplayStats:
    codes: int = 0
    contracts: int = 0
    by_repr: dict = field(default_factory=dict)
    insns: int = 0
    sym_codes: int = 0
    unconstrained_codes: int = 0  # codes with an opaque opcode at a boundary
    truncated_push: int = 0
    jumpdest_in_push: int = 0
    disagreements: list = field(default_factory=list)  # (codehex, repr, field, detail)

    def merge(self, o: "ReplayStats"):
        self.codes += o.codes
        self.contracts += o.contracts
        for k, v in o.by_repr.items():
            self.by_repr[k] = self.by_repr.get(k, 0) + v
        self.insns += o.insns
        self.sym_codes += o.sym_codes
        self.unconstrained_codes += o.unconstrained_codes
        self.truncated_push += o.truncated_push
        self.jumpdest_in_push += o.jumpdest_in_push
        self.disagreements += o.disagreements


def replay_batch(batch, *, codes: dict | None = None, full: bool = True, light: bool = False, api: Api | None = None,
                 reprs=None) -> ReplayStats:
    """batch: records; `codes` maps record id -> code when the record does not carry it (file mode)."""
    st = ReplayStats()
    api = api or Api()
    for rec in batch:
        code = rec[F_CODE] if rec[F_ID] < 0 else codes[rec[F_ID]]
        if len(code) != rec[F_N]:
            raise MachineryError(f"record/code length mismatch for {code_hex(code)[:80]}")
        st.codes += 1
        if SYM in code:
            st.sym_codes += 1
        if rec[F_FS] >= 0:
            st.unconstrained_codes += 1
        st.insns += len(rec[F_I])
        if any(len(i) == 4 and i[2] > rec[F_N] for i in rec[F_I]):
            st.truncated_push += 1
        jset = set(rec[F_J])
        if any(b == 0x5B and p not in jset and (rec[F_FS] < 0 or p < rec[F_FS]) for p, b in enumerate(code)):
            st.jumpdest_in_push += 1
        for rep in reprs or reprs_for(code, full=full):
            if rep in CONCRETE_REPRS and SYM in code:
                continue
            try:
                built = build(code, rep)
            except Exception as e:  # noqa: BLE001
                st.disagreements.append((code_hex(code), rep, "construct", f"Contract construction raised {type(e).__name__}: {e}"))
                continue
            st.contracts += 1
            st.by_repr[rep] = st.by_repr.get(rep, 0) + 1
            for fld, detail in compare(rec, code, built, api, light=light):
                st.disagreements.append((code_hex(code), rep, fld, detail))
    return st


def _worker(args):
    batch, codes, full, light = args
    try:
        return replay_batch(batch, codes=codes, full=full, light=light)
    except MachineryError:
        raise
    except Exception as e:  # noqa: BLE001
        raise MachineryError(f"replay worker failed: {type(e).__name__}: {e}\n{traceback.format_exc()}") from e


def replay_parallel(recs, *, codes: dict | None = None, full: bool = True, light: bool = False, procs: int | None = None,
                    batch: int = 200) -> ReplayStats:
    procs = procs or min(NCPU, 16)
    tasks = []
    for i in range(0, len(recs), batch):
        part = recs[i : i + batch]
        sub = {r[F_ID]: codes[r[F_ID]] for r in part} if codes else None
        tasks.append((part, sub, full, light))
    total = ReplayStats()
    if procs <= 1 or len(tasks) <= 1:
        for t in tasks:
            total.merge(_worker(t))
        return total
    import multiprocessing as mp

    with mp.get_context("fork").Pool(procs) as pool:
        for st in pool.imap_unordered(_worker, tasks, chunksize=1):
            total.merge(st)
    return total


# ---------------------------------------------------------------------------------------------
# random codes


PUSHY = [0x5B] * 6 + [0x60, 0x61, 0x62, 0x63, 0x6F, 0x73, 0x7E, 0x7F] * 2 + [0x00, 0x01, 0x56, 0x57, 0x5F, 0xFD, 0xFE, 0xF3]


def random_code(rnd: random.Random, max_len: int = 4096) -> list[int]:
    r = rnd.random()
    if r < 0.30:
        n = rnd.randint(0, 64)
    elif r < 0.70:
        n = rnd.randint(65, 1024)
    elif r < 0.95:
        n = rnd.randint(1025, max_len)
    else:
        n = max_len
    kind = rnd.random()
    if kind < 0.45:
        code = [rnd.randrange(256) for _ in range(n)]
    elif kind < 0.85:
        code = [rnd.choice(PUSHY) if rnd.random() < 0.7 else rnd.randrange(256) for _ in range(n)]
    else:
        # well-formed instruction stream (every boundary known), many PUSHes
        code = []
        while len(code) < n:
            op = rnd.choice(PUSHY)
            code.append(op)
            if 0x60 <= op <= 0x7F:
                code += [rnd.choice((0x5B, 0x5B, 0x00, 0x60, 0x7F, rnd.randrange(256))) for _ in range(op - 0x5F)]
        code = code[:n]
    if n and rnd.random() < 0.5:
        # truncated trailing PUSH: the last instruction's data runs past the end
        k = rnd.randint(2, 32)
        have = rnd.randint(0, k - 1)
        tail = [0x5F + k] + [rnd.choice((0x5B, rnd.randrange(256))) for _ in range(have)]
        code = (code[: max(0, n - len(tail))] + tail)[:max_len]
    n = len(code)
    s = rnd.random()
    if n and s < 0.35:
        # concrete prefix / symbolic suffix
        k = rnd.randint(0, n)
        if rnd.random() < 0.5:
            k = rnd.randint(max(0, n - 40), n)
        code = code[:k] + [SYM] * (n - k)
    elif n and s < 0.50:
        # symbolic holes (operands of concrete PUSHes, or anything)
        for _ in range(rnd.randint(1, 4)):
            a = rnd.randrange(n)
            m = rnd.randint(1, 40)
            for p in range(a, min(n, a + m)):
                code[p] = SYM
    return code


def random_slices(rnd: random.Random, code) -> list[list[int]]:
    """(off, size) pairs: the whole code and beyond, slices ending at / around the end of the concrete
    prefix (the fast-path boundary of Contract.slice) and of the code, far beyond the end, empty, random."""
    n = len(code)
    pre = next((i for i, b in enumerate(code) if b == SYM), n)
    out = {(0, min(n + 3, 200)), (n, 2), (max(0, n - 1), 3), (n + rnd.randint(1, 5000), rnd.randint(1, 8)), (0, 0),
           (rnd.randint(0, n + 2), 0)}
    for end in (pre - 1, pre, pre + 1, n - 1, n, n + 1):
        if end >= 0:
            off = max(0, end - rnd.randint(0, 48))
            out.add((off, end - off))
    for _ in range(4):
        out.add((rnd.randint(0, n + 40), rnd.randint(0, 70)))
    return sorted([list(p) for p in out])


def random_cases(n: int, seed: int, first_id: int = 0) -> list[dict]:
    rnd = random.Random(seed * 7919 + 19)
    cases = []
    for i in range(n):
        code = random_code(rnd)
        cases.append({"id": first_id + i, "code": code, "sl": random_slices(rnd, code)})
    return cases


# ---------------------------------------------------------------------------------------------
# execution level: jump programs


MARKER = 0xC1
# JUMPDEST; PUSH1 c1; PUSH0; MSTORE; PUSH1 20; PUSH0; RETURN  -> returns the word 0xc1
TAIL = [0x5B, 0x60, MARKER, 0x5F, 0x52, 0x60, 0x20, 0x5F, 0xF3]
MARKER_WORD = MARKER.to_bytes(32, "big")

# form -> (prologue builder, pc of the jump instruction, does the jump happen?)
FORMS = ("jump", "jumpi1", "jumpi0", "jumpi5b", "jumpis", "jump32")


def prologue(form: str, t: int) -> tuple[list[int], int]:
    """(bytes, pc of the JUMP/JUMPI) of a prologue that jumps to the absolute target t."""
    hi, lo = (t >> 8) & 0xFF, t & 0xFF
    if form == "jump":  # PUSH2 t; JUMP
        return [0x61, hi, lo, 0x56], 3
    if form == "jumpi1":  # PUSH1 1; PUSH2 t; JUMPI
        return [0x60, 0x01, 0x61, hi, lo, 0x57], 5
    if form == "jumpi0":  # PUSH1 0; PUSH2 t; JUMPI   (never jumps: the destination is not validated)
        return [0x60, 0x00, 0x61, hi, lo, 0x57], 5
    if form == "jumpi5b":  # PUSH1 5b; PUSH2 t; JUMPI  (a 5b byte in the prologue's own PUSH data, at pc 1)
        return [0x60, 0x5B, 0x61, hi, lo, 0x57], 5
    if form == "jumpis":  # PUSH0; CALLDATALOAD; PUSH2 t; JUMPI  (symbolic condition)
        return [0x5F, 0x35, 0x61, hi, lo, 0x57], 5
    if form == "jump32":  # PUSH32 t; JUMP
        return [0x7F] + list((t % (1 << 256)).to_bytes(32, "big")) + [0x56], 33
    raise ValueError(form)


PRO_LEN = {f: len(prologue(f, 0)[0]) for f in FORMS}


@dataclass
class JumpCase:
    name: str
    form: str
    code: list  # byte values, SYM allowed
    target: int  # absolute
    jpc: int
    want_marker: bool | None = None  # hand-made shapes: a taken jump must end by returning the marker
    id: int = -1
    hr: object = None
    rep: str = "bytes"  # representation of the code handed to halmos (bytes / chunks / concat)

    @property
    def concrete(self) -> bool:
        return SYM not in self.code

    @property
    def key(self) -> str:
        return f"{self.form}:{self.rep}:{code_hex(self.code)}:{self.target}"


def jump_case(name: str, form: str, body: list, rel: int | None, *, tail: bool = True, absolute: int | None = None,
              want_marker: bool | None = None) -> JumpCase:
    """`rel` is relative to the first byte of the body (the tail follows the body)."""
    t = absolute if absolute is not None else PRO_LEN[form] + rel
    pro, jpc = prologue(form, t)
    return JumpCase(name, form, pro + list(body) + (TAIL if tail else []), t, jpc, want_marker)


def with_representations(cases: list[JumpCase]) -> list[JumpCase]:
    """Every program with opaque bytes once per representation of its code (chunks, concat)."""
    out = []
    for c in cases:
        if c.concrete:
            out.append(c)
            # ... and once as a window of a longer buffer (every third program, alternating the two kinds of window)
            if len(out) % 3 == 0:
                out.append(JumpCase(c.name, c.form, list(c.code), c.target, c.jpc, c.want_marker, rep=("view0", "view")[len(out) % 2]))
        else:
            for rep in ("chunks", "concat", "viewchunks"):
                d = JumpCase(c.name, c.form, list(c.code), c.target, c.jpc, c.want_marker, rep=rep)
                out.append(d)
    return out


def handmade_cases() -> list[JumpCase]:
    out = []
    J5 = [0x5B]

    def both(name, body, rel, *, tail=True, want_marker=None, forms=("jump", "jumpi1", "jumpis"), absolute=None):
        for f in forms:
            if f == "jumpis" and SYM in body:
                continue
            out.append(jump_case(name, f, body, rel, tail=tail, want_marker=want_marker, absolute=absolute))

    # a JUMPDEST byte inside PUSH data is not a destination
    both("5b-in-push1", [0x60, 0x5B], 1)
    both("5b-in-push2-a", [0x61, 0x5B, 0x5B], 1)
    both("5b-in-push2-b", [0x61, 0x5B, 0x5B], 2)
    both("5b-in-push32-first", [0x7F] + J5 * 32, 1)
    both("5b-in-push32-last", [0x7F] + J5 * 32, 32)
    both("5b-in-push1-of-push1", [0x60, 0x60, 0x5B], 2, want_marker=True)  # 60 60 | 5b: genuine
    # a genuine JUMPDEST right behind PUSH data is one
    both("5b-after-push1", [0x60, 0x5B, 0x5B], 2, want_marker=True)
    both("5b-after-push2", [0x61, 0x5B, 0x5B, 0x5B], 3, want_marker=True)
    both("5b-after-push32", [0x7F] + J5 * 32 + J5, 33, want_marker=True)
    both("tail-after-push1", [0x60, 0x5B], 2, want_marker=True)
    both("plain-5b", [0x5B], 0, want_marker=True)
    # truncated trailing PUSH32 (no tail): data runs past the end of the code
    both("trunc-push32-genuine-before", [0x5B, 0x7F, 0x5B, 0x5B], 0, tail=False)
    both("trunc-push32-data-a", [0x5B, 0x7F, 0x5B, 0x5B], 2, tail=False)
    both("trunc-push32-data-b", [0x5B, 0x7F, 0x5B, 0x5B], 3, tail=False)
    both("trunc-push32-len", [0x5B, 0x7F, 0x5B, 0x5B], 4, tail=False)
    both("trunc-push32-len+1", [0x5B, 0x7F, 0x5B, 0x5B], 5, tail=False)
    both("trunc-push1-len", [0x5B, 0x60], 2, tail=False)
    both("trunc-push2-data", [0x61, 0x5B], 1, tail=False)
    # a PUSH at the end of the body swallows the tail's JUMPDEST
    both("push1-swallows-tail", [0x5B, 0x60], 2)
    both("push32-swallows-tail", [0x5B, 0x7F], 2)
    # jump to len(code), beyond, huge
    both("to-len", [0x5B], 1 + len(TAIL))
    both("to-len+1", [0x5B], 2 + len(TAIL))
    both("to-ffff", [0x5B], None, absolute=0xFFFF)
    both("to-0", [0x5B], None, absolute=0)
    both("to-prologue-data", [0x5B], None, absolute=1)
    for name, t in (("2^16", 1 << 16), ("2^32+body", (1 << 32) + 34), ("2^64", 1 << 64), ("2^255", 1 << 255), ("2^256-1", (1 << 256) - 1),
                    ("2^256-1-low-bits-valid", ((1 << 256) - (1 << 16)) + 34)):
        out.append(jump_case(f"huge-{name}", "jump32", [0x5B], None, absolute=t))
    out.append(jump_case("jump32-genuine", "jump32", [0x5B], 0, want_marker=True))
    out.append(jump_case("jump32-own-data", "jump32", [0x5B], None, absolute=5))
    # the 5b in the prologue's own PUSH1 data
    out.append(jump_case("5b-in-prologue-push1", "jumpi5b", [0x5B], None, absolute=1))
    out.append(jump_case("jumpi5b-genuine", "jumpi5b", [0x5B], 0, want_marker=True))
    # JUMPI that does not jump never validates its destination
    out.append(jump_case("jumpi0-invalid-target", "jumpi0", [0x60, 0x5B], 1, want_marker=None))
    out.append(jump_case("jumpi0-beyond", "jumpi0", [0x5B], None, absolute=0xFFFF))
    # symbolic regions
    S = SYM
    both("sym-target-in-symbolic-suffix", [0x5B, S, S], 1, tail=False)
    both("sym-genuine-before-symbolic-suffix", [0x5B, S, S], 0, tail=False)
    both("sym-beyond-symbolic-suffix", [0x5B, S, S], 3, tail=False)
    both("sym-push2-data-a", [0x61, S, S, 0x5B], 1)
    both("sym-push2-data-b", [0x61, S, S, 0x5B], 2)
    both("sym-genuine-after-sym-push-data", [0x61, S, S, 0x5B], 3, want_marker=True)
    both("sym-tail-after-sym-push-data", [0x61, S, S], 3, want_marker=True)
    both("sym-5b-after-symbolic-opcode", [S, 0x5B], 1)
    both("sym-trunc-push32-sym-data", [0x7F, S, S], 1, tail=False)
    both("sym-trunc-push32-sym-data-len", [0x7F, S, S], 3, tail=False)
    both("sym-all-symbolic-beyond", [S, S, S], 7, tail=False)
    both("sym-push-straddles-prefix-end", [0x61, 0x5B, S, 0x5B], 3, want_marker=True)
    both("sym-push-straddles-prefix-end-data", [0x61, 0x5B, S, 0x5B], 1)
    return out


def sampled_cases(nbodies: int, maxlen: int, seed: int, *, sym_every: int = 4) -> list[JumpCase]:
    """Bodies sampled from the enumerated strings (all strings over the 8 byte values), every target in
    and around the body, forms in rotation; every `sym_every`-th body also with a symbolic suffix/hole."""
    rnd = random.Random(seed * 104729 + 7)
    out = []
    forms = ("jump", "jumpi1", "jumpis", "jump", "jumpi1", "jumpi0")
    k = 0
    for bi in range(nbodies):
        n = rnd.randint(1, maxlen)
        body = [rnd.choice(ALPHABET) for _ in range(n)]
        if rnd.random() < 0.6 and 0x5B not in body:
            body[rnd.randrange(n)] = 0x5B
        tail = rnd.random() < 0.7
        total = n + (len(TAIL) if tail else 0)
        rels = list(range(n)) + ([n] if tail else []) + [total, total + 1]
        for rel in rels:
            f = forms[k % len(forms)]
            k += 1
            out.append(jump_case("sampled", f, body, rel, tail=tail))
        if sym_every and bi % sym_every == 0 and n >= 2:
            cut = rnd.randint(1, n - 1)
            sb = body[:cut] + [SYM] * (n - cut)
            for rel in rels:
                f = ("jump", "jumpi1")[k % 2]
                k += 1
                out.append(jump_case("sampled-sym", f, sb, rel, tail=tail))
    return out


def run_jump_cases(cases: list[JumpCase]) -> None:
    """Run every case through halmos (harness.hrun.run); fills case.hr."""
    from .hrun import TARGET, Prog, Sym, run

    for c in cases:
        if c.concrete and c.rep in ("view0", "view"):
            code = build(c.code, c.rep).contract._code
        elif c.concrete:
            c.rep = "bytes"
            code = bytes(c.code)
        else:
            # the object the Contract is made of: a ByteVec of chunks, or one z3 term (a single chunk)
            code = build(c.code, c.rep, uid=f"_j{c.id}").contract._code
        cd = [Sym("x", 256)] if c.form == "jumpis" else []
        c.hr = run(Prog(accounts={TARGET: code}, calldata=cd, name=f"c19-{c.form}"))


def judge_jump_direct(c: JumpCase, rec) -> tuple[str, list]:
    """The direct rule for the forms whose jump is unconditional / has a constant condition.
    Returns (class, [(clause, detail)]); class is valid / invalid / unconstrained / notaken."""
    J, U = set(rec[F_J]), set(rec[F_U])
    hr = c.hr
    dis = []
    if hr.exception is not None:
        return "exception", [("escaped-exception", f"SEVM.run raised {hr.exception}")]
    if c.form == "jumpis":
        return "symcond", []
    if len(hr.paths) != 1:
        return "paths", [("path-count", f"{len(hr.paths)} paths for a program without symbolic input")]
    p = hr.paths[0]
    rejected_here = p.error == "InvalidJumpDestError" and p.ex.pc == c.jpc
    if c.form == "jumpi0":
        if rejected_here:
            dis.append(("rejected-untaken-jumpi", f"JUMPI with a zero condition ended with InvalidJumpDestError at pc {c.jpc}"))
        return "notaken", dis
    if c.target in J:
        if rejected_here:
            dis.append(("rejected-genuine-jumpdest", f"jump to {c.target}, a genuine JUMPDEST (specification: {sorted(J)}), ended with InvalidJumpDestError at the jump (pc {c.jpc})"))
        elif c.want_marker:
            data = p.data
            if p.error is not None or p.stuck or not isinstance(data, bytes) or data != MARKER_WORD:
                dis.append(("no-marker", f"jump to the genuine JUMPDEST {c.target} did not continue there: error={p.error} stuck={p.stuck_reason} data={data!r}"))
        return "valid", dis
    if c.target in U:
        return "unconstrained", dis
    if p.error != "InvalidJumpDestError":
        dis.append(("jumped-to-invalid-destination", f"jump to {c.target}, not a valid destination (specification: {sorted(J)}), did not end with InvalidJumpDestError: error={p.error} stuck={p.stuck_reason} data={p.data!r} pc={p.ex.pc}"))
    return "invalid", dis
