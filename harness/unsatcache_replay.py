"""C16 - the unsat-core cache (`--cache-solver`) is observationally transparent.

Python side of spec/UnsatCache.tla / spec/Trace_UnsatCache.tla:

* `unsatcache_gen_contract`   generator of test contracts whose decision trees re-use a small pool of
                              correlated atoms, so that many assertion-failure leaves are infeasible with
                              unsat cores of many shapes (sizes 2..5, shared / disjoint prefixes), next to
                              feasible ones (counterexamples);
* `UnsatcacheRecorder`        wrappers (installed from the harness process, nothing in /repo is edited) around
                              `Path.to_smt2`, `Path.check`, `check_unsat_cores`, `solve_end_to_end`,
                              `FunctionContext.append_unsat_core`, `CounterexampleHandler.*`, `run_message`,
                              `run_test`; they record one event log per `run_contract` and force
                              `gc.collect()` between paths.  The recorder keeps *no* reference to z3 objects
                              (only texts), so it does not change which objects stay alive;
* `unsatcache_oracle`         the query's own solver run with the cache off (plain dump, refinement as halmos
                              does it), and the check that a stored core is jointly unsatisfiable;
* `unsatcache_validate`       batched validation of the logs by TLC on Trace_UnsatCache.tla;
* `unsatcache_differential`   cache off vs. `--cache-solver` in the same process;
* `unsatcache_parse_shapes`   every output shape of yices-smt2 / z3 (and of the documented regex) through
                              `parse_unsat_core`;
* mutants (`unsatcache_mutant`): broken caches that the machinery has to reject.
"""

from __future__ import annotations

import contextlib
import gc
import hashlib
import json
import os
import random
import re
import shutil
import subprocess
import threading
import time
from concurrent.futures import Future
from dataclasses import dataclass, field
from pathlib import Path as FsPath

from .artifacts import Contract, Fn, arg, panic, revert_plain, run_contract
from .common import MachineryError, run_tlc

import z3  # noqa: E402

import halmos.__main__ as hmain  # noqa: E402
import halmos.sevm as hsevm  # noqa: E402
import halmos.solve as hsolve  # noqa: E402

YICES = ["/venv/bin/yices-smt2", "--smt2-model-format", "--bvconst-in-decimal"]
Z3BIN = ["/usr/bin/z3"]



def unsatcache_tune_allocator() -> bool:
    """`Path.to_smt2` creates a fresh z3 Context per query.  With glibc's default thresholds the memory of the
    previous one has been unmapped / trimmed, and first-touching the new one costs ~0.3 s per query on this
    machine (measured: 33 queries 21.6 s -> 3.2 s).  Keeping freed memory in the process is a pure allocator
    setting of the *harness process*; it changes nothing halmos or z3 can observe."""
    try:
        import ctypes

        libc = ctypes.CDLL("libc.so.6")
        M_TRIM_THRESHOLD, M_TOP_PAD, M_MMAP_THRESHOLD = -1, -2, -3
        ok = libc.mallopt(M_TRIM_THRESHOLD, 1 << 30) and libc.mallopt(M_MMAP_THRESHOLD, 1 << 30) and libc.mallopt(M_TOP_PAD, 256 << 20)
        return bool(ok)
    except Exception:  # noqa: BLE001 - only a speed-up
        return False


# =============================================================================================
# generator


@dataclass
class UcMeta:
    sig: str
    nargs: int
    tree: str
    depth: int
    leaves: int
    panics: int
    uses_mul: bool = False


class _Gen:
    def __init__(self, rnd: random.Random, nargs: int, slots: dict, prefix: str, hard: float):
        self.rnd, self.nargs, self.slots, self.prefix, self.hard = rnd, nargs, slots, prefix, hard
        self.lid = 0
        self.uses_mul = False
        self.nleaves = 0
        self.npanics = 0

    def label(self) -> str:
        self.lid += 1
        return f"{self.prefix}_{self.lid}"

    def atom(self):
        """(code pushing a 0/1 word, description); small constants so that atoms interact."""
        r = self.rnd
        i = 0 if r.random() < 0.5 else r.randrange(self.nargs)  # biased: most atoms talk about a0
        j = (i + 1 + r.randrange(self.nargs - 1)) % self.nargs if self.nargs >= 2 else None
        k = r.random()
        if k < self.hard and j is not None:
            self.uses_mul = True
            c = r.choice([6, 15, 35])
            return arg(j) + arg(i) + ["MUL", ("PUSH", c), "EQ"], f"a{i}*a{j}=={c}"
        k = r.random()
        if k < 0.22:
            c = r.choice([0, 1, 2, 3])
            return arg(i) + [("PUSH", c), "EQ"], f"a{i}=={c}"
        if k < 0.40:
            c = r.choice([1, 2, 3, 4])
            return [("PUSH", c)] + arg(i) + ["LT"], f"a{i}<{c}"
        if k < 0.55:
            c = r.choice([0, 1, 2, 3])
            return [("PUSH", c)] + arg(i) + ["GT"], f"a{i}>{c}"
        if k < 0.65 and j is not None:
            return arg(j) + arg(i) + ["EQ"], f"a{i}==a{j}"
        if k < 0.78 and j is not None:
            return arg(j) + arg(i) + ["LT"], f"a{i}<a{j}"
        if k < 0.86 and j is not None:
            c = r.choice([0, 1, 3])
            return arg(j) + arg(i) + ["ADD", ("PUSH", c), "EQ"], f"a{i}+a{j}=={c}"
        if k < 0.93:
            c = r.choice([0, 1])
            return arg(i) + [("PUSH", 1), "AND", ("PUSH", c), "EQ"], f"a{i}&1=={c}"
        if self.slots:
            s = r.choice(sorted(self.slots))
            return [("PUSH", s), "SLOAD"] + arg(i) + ["EQ"], f"a{i}==slot{s}"
        c = r.choice([0, 5])
        return arg(i) + [("PUSH", c), "EQ"], f"a{i}=={c}"

    def leaf(self):
        k = self.rnd.random()
        self.nleaves += 1
        if k < 0.55:
            self.npanics += 1
            return panic(1), "P"
        if k < 0.85:
            return ["STOP"], "ok"
        return revert_plain(), "rv"

    def tree(self, depth: int, pool: list, forced: tuple = ()):
        """`forced` atoms are taken first (down the true branches): a contradiction seeded near the root makes
        a whole subtree infeasible, so that one unsat core answers many later queries."""
        if depth <= 0 or (not forced and self.rnd.random() < 0.08):
            return self.leaf()
        if forced:
            (c, cd), rest = forced[0], [a for a in pool if a[1] != forced[0][1]]
        elif not pool:
            return self.leaf()
        else:
            k = self.rnd.randrange(len(pool))
            (c, cd), rest = pool[k], pool[:k] + pool[k + 1:]  # an atom occurs at most once on a path
        t, td = self.tree(depth - 1, rest, forced[1:])
        e, ed = self.tree(depth - 1, rest)
        lt = self.label()
        return c + [("PUSHL", lt), "JUMPI"] + e + [("LABEL", lt)] + t, f"({cd}?{td}:{ed})"

    def contradiction(self):
        """Two or three atoms that cannot hold together (inequalities: halmos folds equalities with constants
        into the path by substitution, so contradictory equalities never reach the solver)."""
        r = self.rnd
        i = r.randrange(self.nargs)
        lt = lambda x, c: ([("PUSH", c)] + arg(x) + ["LT"], f"a{x}<{c}")  # noqa: E731
        gt = lambda x, c: ([("PUSH", c)] + arg(x) + ["GT"], f"a{x}>{c}")  # noqa: E731
        k = r.randrange(5)
        if k == 0:
            return (lt(i, 2), gt(i, 3))
        if k == 1:
            return (gt(i, 2), lt(i, 3))
        if k == 2 and self.nargs >= 2:
            j = (i + 1) % self.nargs
            return ((arg(j) + arg(i) + ["LT"], f"a{i}<a{j}"), (arg(i) + arg(j) + ["LT"], f"a{j}<a{i}"))
        if k == 3 and self.nargs >= 2:
            j = (i + 1) % self.nargs
            return ((arg(j) + arg(i) + ["LT"], f"a{i}<a{j}"), lt(j, 2), gt(i, 3))
        return (gt(i, 1), lt(i, 1))


def unsatcache_gen_contract(rnd: random.Random, ntests: int = 3, depth=(3, 5), hard: float = 0.04, name: str = "UcTest"):
    """A contract with setUp() (writes 1-2 slots) and `ntests` check_ functions, each a decision tree whose
    nodes draw (without repetition along a path) from a per-test pool of distinct atoms over small constants,
    mostly about a0, so that paths contradict themselves in many ways."""
    slots = {s: rnd.choice([0, 1, 2, 3]) for s in rnd.sample([0, 1, 2], rnd.randint(1, 2))}
    setup = []
    for s, v in sorted(slots.items()):
        setup += [("PUSH", v), ("PUSH", s), "SSTORE"]
    setup += ["STOP"]
    fns = [Fn("setUp()", setup)]
    metas = []
    for t in range(ntests):
        nargs = rnd.choice([1, 2, 2, 3])
        g = _Gen(rnd, nargs, slots, f"{name}t{t}", hard)
        d = rnd.randint(*depth)
        pool, seen = [], set()
        for _ in range(40):
            a = g.atom()
            if a[1] not in seen:
                seen.add(a[1])
                pool.append(a)
            if len(pool) >= d + rnd.randint(0, 2):
                break
        forced = g.contradiction() if rnd.random() < 0.5 else ()
        body, desc = g.tree(d + (1 if forced else 0), pool, forced)
        if g.npanics == 0:
            body, desc = panic(1), "P"
            g.nleaves, g.npanics = 1, 1
        sig = f"check_t{t}(" + ",".join(["uint256"] * nargs) + ")"
        fns.append(Fn(sig, body))
        metas.append(UcMeta(sig, nargs, desc, d, g.nleaves, g.npanics, g.uses_mul))
    return Contract(name, fns), metas


# =============================================================================================
# recorder (code -> spec)

_UID_RE = re.compile(r"_[0-9a-f]{7}_(\d\d)\b")


def unsatcache_norm(text: str) -> str:
    """Replace the per-run uid suffix of halmos' symbol names by a constant."""
    return _UID_RE.sub(r"_UID_\1", text)


class _ArgsOff:
    cache_solver = False


def _h(text: str) -> str:
    return hashlib.sha1(text.encode()).hexdigest()[:16]


class UnsatcacheRecorder:
    """Installs the wrappers for the duration of a `with` block.  One event log (`events`) per instance.

    inject: "all" | "half" | "none" - `Path.check` answers `unknown` (an admissible solver answer) for every /
            a seeded half of / none of the branching queries made while a test runs, so that infeasible paths
            reach the assertion solver;  the schedule is a function of (seed, test index, call index) only.
    mutant: None | "drop_one_id" | "store_subset" | "nopin" - deliberately broken caches (negative controls);
            "nopin_futures" / "nopin_termvars" release only one of the two references (must stay sound).
    """

    def __init__(self, inject: str = "all", seed: int = 0, force_gc: bool = True, mutant: str | None = None,
                 reserialize: bool = False):
        self.inject, self.seed, self.force_gc, self.mutant = inject, seed, force_gc, mutant
        self.reserialize = reserialize
        self.events: list[dict] = []
        self.texts: dict[str, str] = {}  # hash -> S-expression text
        self.qdata: dict[int, dict] = {}
        self.lock = threading.RLock()
        self.tl = threading.local()
        self._qid_of: dict[int, int] = {}  # id(SMTQuery) -> qid (the SMTQuery objects are kept alive in qdata)
        self._done: dict[int, threading.Event] = {}
        self._nq = 0
        self._ntest = 0
        self._ncheck = 0
        self._in_test = False
        self._saved: list = []
        self.gc_runs = 0

    # -- helpers
    def _ev(self, **kw):
        with self.lock:
            self.events.append(kw)

    def _gc(self):
        if self.force_gc:
            gc.collect()
            self.gc_runs += 1

    def _patch(self, obj, name, new):
        self._saved.append((obj, name, getattr(obj, name)))
        setattr(obj, name, new)

    # -- context manager
    def __enter__(self):
        rec = self
        o_check = hsevm.Path.check
        o_smt2 = hsevm.Path.to_smt2
        o_cuc = hsolve.check_unsat_cores
        o_append = hsolve.FunctionContext.append_unsat_core
        o_e2e = hmain.solve_end_to_end
        o_hav = hmain.CounterexampleHandler.handle_assertion_violation
        o_cb = hmain.CounterexampleHandler._solve_end_to_end_callback
        o_rm = hmain.run_message
        o_rt = hmain.run_test

        def check(self, cond):
            if rec._in_test and rec.inject != "none":
                rec._ncheck += 1
                if rec.inject == "all":
                    return z3.unknown
                r = random.Random(f"{rec.seed}/{rec._ntest}/{rec._ncheck}").random()
                if r < 0.5:
                    return z3.unknown
            return o_check(self, cond)

        def to_smt2(self, args):
            sub = getattr(rec.tl, "submit", None)
            if sub is None:
                return o_smt2(self, args)
            rec._gc()  # reclamation between paths, before the ids are read
            q = o_smt2(self, args)
            if not args.cache_solver:
                plain = q.smtlib
            elif rec.reserialize:
                plain = o_smt2(self, _ArgsOff).smtlib  # independent of the id mechanism
            else:
                plain = q.smtlib + "".join(f"(assert |{a}|)\n" for a in q.assertions)
            hashes, nhashes = [], []  # raw texts identify objects within a run; uid-normalised ones compare runs
            for c in self.conditions:
                t = c.sexpr()
                h = _h(t)
                rec.texts.setdefault(h, t)
                hashes.append(h)
                nhashes.append(_h(unsatcache_norm(t)))
            with rec.lock:
                rec._nq += 1
                n = rec._nq
                rec._qid_of[id(q)] = n
                rec._done[n] = threading.Event()
                rec.qdata[n] = {"query": q, "plain": plain, "ids": [int(x) for x in q.assertions], "cons": hashes, "ncons": nhashes,
                                "path": sub[0], "test": rec._ntest, "cache": bool(args.cache_solver)}
                rec.events.append({"e": "query", "q": n, "path": sub[0], "ids": [int(x) for x in q.assertions], "cons": hashes})
            rec.tl.last_q = n
            return q

        def handle_assertion_violation(self, path_id, ex, panic_found, description=None):
            rec.tl.submit = (path_id,)
            rec.tl.last_q = None
            try:
                r = o_hav(self, path_id=path_id, ex=ex, panic_found=panic_found, description=description)
            finally:
                rec.tl.submit = None
            if rec.mutant in ("nopin", "nopin_futures", "nopin_termvars") and rec.tl.last_q is not None:
                # release the pins: wait for the query (so that its core is stored), then forget the future
                # with its callback (which references `ex`) and/or the shared term_to_vars cache; the
                # objects are reclaimed by the gc.collect() calls between paths
                n = rec.tl.last_q
                if not rec._done[n].wait(300):
                    raise MachineryError("nopin control: solver callback did not finish")
                if rec.mutant in ("nopin", "nopin_futures"):
                    fut = self.submitted_futures[-1]
                    with fut._condition:
                        fut._done_callbacks.clear()
                    dummy = Future()
                    dummy.set_result(None)
                    self.submitted_futures[-1] = dummy
                    del fut
                if rec.mutant in ("nopin", "nopin_termvars"):
                    ex.path.term_to_vars.clear()
            return r

        def check_unsat_cores(query, unsat_cores):
            with rec.lock:
                if rec.mutant == "drop_one_id":
                    hit = any(all(c in query.assertions for c in core[1:]) for core in unsat_cores)
                else:
                    hit = o_cuc(query, unsat_cores)
                n = rec._qid_of.get(id(query))
                snap = []
                for core in unsat_cores:
                    try:
                        snap.append([int(x) for x in core])
                    except (TypeError, ValueError):
                        snap.append([-1])
                rec.events.append({"e": "check", "q": n, "hit": bool(hit), "cores": snap})
                return hit

        def append_unsat_core(self, unsat_core):
            with rec.lock:
                n = getattr(rec.tl, "current_q", None)
                stored = unsat_core
                if rec.mutant == "store_subset" and len(unsat_core) > 1:
                    stored = unsat_core[:-1]
                try:
                    ids = [int(x) for x in stored]
                except (TypeError, ValueError):
                    ids = [-1]
                rec.events.append({"e": "core", "q": n, "ids": ids})
                return o_append(self, stored)

        def solve_end_to_end(ctx):
            out = o_e2e(ctx)
            n = rec._qid_of.get(id(ctx.query))
            m = out.model
            model = None
            if m is not None:
                model = {"valid": m.is_valid, "vars": {unsatcache_norm(k): (v.value, v.size_bits, k) for k, v in m.model.items()}}
            with rec.lock:
                if n in rec.qdata:
                    rec.qdata[n]["out"] = {"result": str(out.result), "core": out.unsat_core, "model": model,
                                           "file": out.query_file, "error": out.error}
            return out

        def _solve_end_to_end_callback(self, future, ex, path_ctx, description):
            n = rec._qid_of.get(id(path_ctx.query))
            rec.tl.current_q = n
            try:
                return o_cb(self, future, ex=ex, path_ctx=path_ctx, description=description)
            finally:
                rec.tl.current_q = None
                rec._ev(e="done", q=n)
                if n in rec._done:
                    rec._done[n].set()

        def run_message(*a, **k):
            it = o_rm(*a, **k)
            while True:
                try:
                    ex = next(it)
                except StopIteration:
                    return
                yield ex
                ex = None
                rec._gc()  # reclamation between paths

        def run_test(ctx):
            with rec.lock:
                rec._ntest += 1
                rec._ncheck = 0
                rec.events.append({"e": "test", "sig": ctx.info.sig, "t": rec._ntest, "cache": bool(ctx.args.cache_solver),
                                   "ncores": len(ctx.solving_ctx.unsat_cores)})
            rec._in_test = True
            try:
                return o_rt(ctx)
            finally:
                rec._in_test = False
                with rec.lock:
                    rec.events.append({"e": "endtest", "t": rec._ntest})
                rec._gc()

        self._patch(hsevm.Path, "check", check)
        self._patch(hsevm.Path, "to_smt2", to_smt2)
        self._patch(hsolve, "check_unsat_cores", check_unsat_cores)
        self._patch(hsolve.FunctionContext, "append_unsat_core", append_unsat_core)
        self._patch(hmain, "solve_end_to_end", solve_end_to_end)
        self._patch(hmain.CounterexampleHandler, "handle_assertion_violation", handle_assertion_violation)
        self._patch(hmain.CounterexampleHandler, "_solve_end_to_end_callback", _solve_end_to_end_callback)
        self._patch(hmain, "run_message", run_message)
        self._patch(hmain, "run_test", run_test)
        return self

    def __exit__(self, *exc):
        for obj, name, old in reversed(self._saved):
            setattr(obj, name, old)
        self._saved.clear()
        return False


# =============================================================================================
# oracle: the query's own solver run, cache off


def unsatcache_run_solver(text: str, path: FsPath, solver=None, timeout: float = 120.0) -> tuple[str, str]:
    """(first line, stdout) of an external solver on an SMT-LIB text."""
    path.write_text(text)
    try:
        p = subprocess.run((solver or YICES) + [str(path)], capture_output=True, text=True, timeout=timeout)
    except subprocess.TimeoutExpired:
        return "unknown", ""
    out = p.stdout
    return (out.split("\n", 1)[0].strip() if out else "err"), out


def _with_refinement(body: str, path: FsPath, solver=None, timeout: float = 40.0) -> str:
    """What `solve_end_to_end` answers with the cache off: solve; a model that mentions the f_evm_ abstractions
    is not trusted, the refined query decides.  yices first; z3 is asked when yices gives up."""
    first = "unknown"
    for cmd in ([solver] if solver else [YICES, Z3BIN]):
        first, out = unsatcache_run_solver(f"(set-logic QF_AUFBV)\n{body}\n(check-sat)\n(get-model)\n", path, cmd, timeout)
        if first == "sat" and "f_evm_" in out:
            refined = hsolve.refine(hsevm.SMTQuery(body, [])).smtlib
            if refined != body:
                first, out = unsatcache_run_solver(f"(set-logic QF_AUFBV)\n{refined}\n(check-sat)\n(get-model)\n",
                                                   path.with_suffix(".refined.smt2"), cmd, timeout)
        if first in ("sat", "unsat"):
            return first
    return "unknown"


def unsatcache_oracle(rec: UnsatcacheRecorder, work: FsPath, tag: str, pool, only_hits: bool = False) -> None:
    """Fills qdata[n]["truth"] (own solver run of every query, cache off) and, for every stored core,
    core_truth (are the assertions it names jointly unsatisfiable?) by external solver runs."""
    work.mkdir(parents=True, exist_ok=True)
    hits = {e["q"] for e in rec.events if e["e"] == "check" and e["hit"]}
    jobs = {}
    for n, qd in rec.qdata.items():
        if not qd["cache"]:
            continue
        if only_hits and n not in hits:
            continue
        jobs[("q", n)] = pool.submit(_with_refinement, qd["plain"], work / f"{tag}-q{n}.smt2")
    k = 0
    for e in rec.events:
        if e["e"] == "core" and e["q"] in rec.qdata:
            k += 1
            e["k"] = k
            qd = rec.qdata[e["q"]]
            named = qd["query"].smtlib
            # the assertions the core names, alone: their guards true, every other guard false (leaving the other
            # guards free is equivalent, but yices-smt2 was measured to run > 5 min on such a query)
            body = named + "".join(f"(assert |{a}|)\n" if a in e["ids"] else f"(assert (not |{a}|))\n" for a in qd["ids"])
            jobs[("c", k)] = pool.submit(_with_refinement, body, work / f"{tag}-c{k}.smt2")
    for (kind, n), fut in jobs.items():
        r = fut.result()
        if kind == "q":
            rec.qdata[n]["truth"] = r
        else:
            for e in rec.events:
                if e["e"] == "core" and e.get("k") == n:
                    e["truth"] = r


# =============================================================================================
# trace construction and validation by TLC


class UnsatcacheBatch:
    """Event logs of many run_contract calls, with batch-global interning of constraint texts."""

    def __init__(self):
        self.traces: list[dict] = []
        self._fam_cur: list[list[int]] = []
        self._fam_seen: set = set()
        self._intern: dict = {}
        self.meta: list[dict] = []

    def _c(self, t: int, h: str) -> int:
        return self._intern.setdefault((t, h), len(self._intern) + 1)

    def _fam(self, s):
        key = tuple(sorted(set(s)))
        if key and key not in self._fam_seen:
            self._fam_seen.add(key)
            self._fam_cur.append(list(key))

    def add_built(self, trace: dict, meta: dict | None = None) -> int:
        """A log already converted by `add` in another process (constraint numbers are local to a log)."""
        self.traces.append(trace)
        self.meta.append(meta or {})
        return len(self.traces)

    def add(self, rec: UnsatcacheRecorder, name: str, meta: dict | None = None) -> int:
        t = len(self.traces) + 1
        evs = []
        self._fam_cur, self._fam_seen = [], set()  # the jointly unsatisfiable constraint sets of this log
        cons_of = {}  # q -> {id: constraint number}
        for e in rec.events:
            k = e["e"]
            if k == "test":
                evs.append({"e": "test", "ncores": e["ncores"]})
            elif k == "endtest":
                evs.append({"e": "endtest"})
            elif k == "query":
                cs = [self._c(t, h) for h in e["cons"]]
                cons_of[e["q"]] = dict(zip(e["ids"], cs))
                evs.append({"e": "query", "q": e["q"], "ids": e["ids"], "cons": cs})
                if rec.qdata[e["q"]].get("truth") == "unsat":
                    self._fam(cs)
            elif k == "check":
                if e["q"] is None:
                    raise MachineryError("check_unsat_cores called on a query the recorder did not see")
                evs.append({"e": "check", "q": e["q"], "hit": e["hit"], "nc": len({tuple(sorted(c)) for c in e["cores"]}),
                            "truth": rec.qdata[e["q"]].get("truth", "unknown")})
            elif k == "core":
                evs.append({"e": "core", "q": e["q"] if e["q"] is not None else 0, "ids": e["ids"], "truth": e.get("truth", "unknown")})
                m = cons_of.get(e["q"], {})
                # an oracle that gave up is not evidence against the core: the solver's word is taken (and counted)
                if e.get("truth") in ("unsat", "unknown") and all(i in m for i in e["ids"]):
                    self._fam([m[i] for i in e["ids"]])
            elif k == "done":
                evs.append({"e": "done", "q": e["q"] if e["q"] is not None else 0})
        self.traces.append({"name": name, "events": evs, "family": self._fam_cur})
        self.meta.append(meta or {})
        return t

    def corrupt_copy(self, t: int, how: str) -> int | None:
        """Negative controls on the log itself: a copy of trace t with one field corrupted / one event dropped."""
        src = self.traces[t - 1]["events"]
        evs = json.loads(json.dumps(src))
        if how == "rebind":  # an id of a stored core gets another constraint in the next query
            core = None
            for e in evs:
                if e["e"] == "core":
                    core = e["ids"]
                elif e["e"] == "endtest":
                    core = None
                elif e["e"] == "query" and core and core[0] in e["ids"]:
                    e["cons"][e["ids"].index(core[0])] = 10**8 + t  # a constraint number no log uses
                    break
            else:
                return None
        elif how == "drop_core":  # the append event of a core that is used later is dropped
            used = None
            for k, e in enumerate(evs):
                if e["e"] == "check" and e["hit"]:
                    used = k
                    break
            if used is None:
                return None
            for k in range(used - 1, -1, -1):
                if evs[k]["e"] == "core":
                    del evs[k]
                    break
            else:
                return None
        elif how == "flip_hit":  # a miss is reported as a hit
            for e in evs:
                if e["e"] == "check" and not e["hit"] and e["truth"] == "sat":
                    e["hit"] = True
                    break
            else:
                return None
        elif how == "truth_sat":  # the oracle says sat on a hit
            for e in evs:
                if e["e"] == "check" and e["hit"]:
                    e["truth"] = "sat"
                    break
            else:
                return None
        else:
            raise ValueError(how)
        self.traces.append({"name": f"{self.traces[t-1]['name']}#{how}", "events": evs, "family": self.traces[t - 1]["family"]})
        self.meta.append({"control": how, "of": t})
        return len(self.traces)

    def validate(self, work: FsPath, workers: int = 4, cfg: str = "MC_Trace_UnsatCache.cfg") -> tuple[dict, object]:
        """tid -> {"ok": bool, "why": clause, "p": matched prefix, "n": length, "ev": event kind}"""
        if not self.traces:
            raise MachineryError("no traces to validate")
        f = work / f"c16-traces-{len(self.traces)}-{int(time.time()*1000) % 10**8}.json"
        f.write_text(json.dumps({"traces": self.traces}))
        r = run_tlc("Trace_UnsatCache", cfg, work=work, workers=workers, env={"C16_TRACES": str(f)},
                    heap="4g")
        if not r.ok:
            raise MachineryError(f"TLC failed on Trace_UnsatCache ({r.violated}):\n{r.stdout[-2500:]}")
        res = {}
        for x in r.records:
            if isinstance(x, dict) and "tid" in x:
                res[x["tid"]] = {"ok": x["why"] == "done", "why": x["why"], "p": x["p"], "n": x["n"], "ev": x["ev"].strip('"')}
        missing = [t for t in range(1, len(self.traces) + 1) if t not in res]
        if missing:
            raise MachineryError(f"Trace_UnsatCache gave no verdict for traces {missing[:5]}:\n{r.stdout[-1500:]}")
        return res, r


# =============================================================================================
# the observable: verdicts and counterexample sets, cache on vs. off


def unsatcache_summary(rec: UnsatcacheRecorder, out) -> dict:
    """Per test: exit code, number of models, and per path the constraint texts of the query, the solver result,
    the names/validity of the model.  Everything is uid-normalised, so runs are comparable."""
    tests = {}
    cur = None
    order = []
    for e in rec.events:
        if e["e"] == "test":
            cur = {"sig": e["sig"], "paths": {}}
            tests[e["sig"]] = cur
            order.append(e["sig"])
        elif e["e"] == "query":
            qd = rec.qdata[e["q"]]
            o = qd.get("out") or {}
            m = o.get("model")
            cur["paths"][str(e["path"])] = {
                "cons": qd["ncons"],
                "result": o.get("result", "none"),
                "valid": m["valid"] if m else None,
                "names": sorted(m["vars"]) if m else None,
                "values": {k: v[0] for k, v in m["vars"].items()} if m else None,
                "q": e["q"],
            }
    for r in out.results:
        if r.name in tests:
            tests[r.name]["exit"] = r.exitcode
            tests[r.name]["num_models"] = r.num_models
            tests[r.name]["stats"] = list(r.num_paths) if r.num_paths else None
    return {"order": order, "tests": tests, "exception": out.exception}


def unsatcache_compare(off: dict, on: dict) -> list[tuple[str, str, str]]:
    """[(sig, kind, description)] - the differences between a cache-off and a cache-on summary.
    kind "inconclusive" = a solver gave up in one of the runs (not a verdict about the cache)."""
    diffs = []
    if off["order"] != on["order"]:
        diffs.append(("*", "tests", f"tests run: {off['order']} vs {on['order']}"))
    for sig in off["order"]:
        a, b = off["tests"].get(sig), on["tests"].get(sig)
        if a is None or b is None:
            continue
        pa, pb = a["paths"], b["paths"]
        bad = [r["result"] for r in list(pa.values()) + list(pb.values()) if r["result"] not in ("sat", "unsat")]
        if bad:
            diffs.append((sig, "inconclusive", f"solver results {sorted(set(bad))}"))
            continue
        if a.get("exit") != b.get("exit"):
            diffs.append((sig, "verdict", f"exit code {a.get('exit')} (cache off) vs {b.get('exit')} (cache on)"))
        if a.get("stats") != b.get("stats"):
            diffs.append((sig, "paths", f"(paths, normal, stuck) {a.get('stats')} vs {b.get('stats')}"))
        if sorted(pa) != sorted(pb):
            diffs.append((sig, "queries", f"paths with a query: {sorted(pa)} vs {sorted(pb)}"))
            continue
        for pid in sorted(pa, key=int):
            x, y = pa[pid], pb[pid]
            if x["cons"] != y["cons"]:
                diffs.append((sig, "query-text", f"path {pid}: the constraints of the query differ"))
            if x["result"] != y["result"]:
                diffs.append((sig, "result", f"path {pid}: {x['result']} (cache off) vs {y['result']} (cache on)"))
            elif x["result"] == "sat" and (x["names"] != y["names"] or x["valid"] != y["valid"]):
                diffs.append((sig, "model-shape", f"path {pid}: model variables/validity {x['names']}/{x['valid']} vs {y['names']}/{y['valid']}"))
        if a.get("num_models") != b.get("num_models"):
            diffs.append((sig, "models", f"number of counterexamples {a.get('num_models')} vs {b.get('num_models')}"))
    return diffs


def unsatcache_model_holds(rec: UnsatcacheRecorder, n: int, path: FsPath) -> str:
    """Is the counterexample reported for query n a model of the query's constraints (plain form)?"""
    qd = rec.qdata[n]
    m = (qd.get("out") or {}).get("model")
    if not m:
        return "none"
    body = qd["plain"]
    if "f_evm_" in body:
        body = hsolve.refine(hsevm.SMTQuery(body, [])).smtlib
    pins = "".join(f"(assert (= |{orig}| (_ bv{val} {bits})))\n" for (val, bits, orig) in m["vars"].values())
    first, _ = unsatcache_run_solver(f"(set-logic QF_AUFBV)\n{body}\n{pins}(check-sat)\n", path)
    return first


# =============================================================================================
# one generated contract, all runs


@dataclass
class UcCase:
    seed: int
    index: int
    ntests: int
    depth: tuple
    hard: float
    cli: tuple
    inject: str

    def contract(self):
        rnd = random.Random(f"c16/{self.seed}/{self.index}")
        return unsatcache_gen_contract(rnd, ntests=self.ntests, depth=self.depth, hard=self.hard, name=f"Uc{self.index}")

    def key(self) -> str:
        c, _ = self.contract()
        return hashlib.sha1(c.runtime()).hexdigest()[:10]


BASE_CLI = ("--solver-timeout-branching", "0", "--solver-timeout-assertion", "0")


def unsatcache_run(case: UcCase, cache: bool, dump: FsPath, mutant: str | None = None, force_gc: bool = True,
                   reserialize: bool = False):
    c, metas = case.contract()
    cli = BASE_CLI + tuple(case.cli) + (("--cache-solver",) if cache else ())
    rec = UnsatcacheRecorder(inject=case.inject, seed=case.seed * 1000 + case.index, force_gc=force_gc, mutant=mutant,
                             reserialize=reserialize)
    d = dump / f"{'on' if cache else 'off'}-{case.index}-{mutant or 'x'}"
    with rec:
        out = run_contract(c, cli=cli, dump_dir=str(d))
    shutil.rmtree(d, ignore_errors=True)
    for suffix in ("-error", "-timeout"):
        for p in dump.glob(f"*{suffix}"):
            shutil.rmtree(p, ignore_errors=True)
    if out.exception:
        raise MachineryError(f"run_contract raised {out.exception} on case {case}")
    if len(out.results) != case.ntests:
        raise MachineryError(f"run_contract returned {len(out.results)} results for {case.ntests} tests: {out.logs[-800:]}")
    return rec, out, metas


def unsatcache_case(case: UcCase, work: FsPath, pool, mutant: str | None = None, with_off: bool = True,
                    reserialize: bool = False, s_off: dict | None = None) -> dict:
    """Everything that is done with one generated contract; the result is JSON-able (it crosses processes in
    the thorough tier): same-process differential, oracle, converted log, counterexample re-validation, stats."""
    t0 = time.time()
    res: dict = {"index": case.index, "key": case.key(), "mutant": mutant}
    if with_off and s_off is None:
        rec_off, out_off, _ = unsatcache_run(case, cache=False, dump=work / "dump")
        s_off = unsatcache_summary(rec_off, out_off)
    t1 = time.time()
    rec, out, metas = unsatcache_run(case, cache=True, dump=work / "dump", mutant=mutant, reserialize=reserialize)
    t2 = time.time()
    unsatcache_oracle(rec, work / "oracle", f"c{case.index}{mutant or ''}", pool)
    s_on = unsatcache_summary(rec, out)
    res["s_on"], res["s_off"] = s_on, s_off
    res["diffs"] = [list(d) for d in unsatcache_compare(s_off, s_on)] if s_off else []
    b = UnsatcacheBatch()
    b.add(rec, f"case{case.index}" + (f"-{mutant}" if mutant else ""))
    res["trace"] = b.traces[0]
    models = {"compared": 0, "identical": 0, "revalidated": 0, "invalid": []}
    if s_off and not mutant:
        for sig in s_on["order"]:
            for pid, y in s_on["tests"][sig]["paths"].items():
                if y["result"] != "sat":
                    continue
                models["compared"] += 1
                x = s_off["tests"].get(sig, {}).get("paths", {}).get(pid)
                if x and x.get("values") == y["values"]:
                    models["identical"] += 1
                    continue
                models["revalidated"] += 1
                if unsatcache_model_holds(rec, y["q"], work / "oracle" / f"m{case.index}-{y['q']}.smt2") == "unsat":
                    models["invalid"].append([sig, pid, y["values"]])
    res["models"] = models
    cores = [len(e["ids"]) for e in rec.events if e["e"] == "core"]
    nontrivial, tno = [], 0
    for e in rec.events:
        if e["e"] == "test":
            tno += 1
        elif e["e"] == "core":
            nontrivial.append(["core", tno])
        elif e["e"] == "check" and e["hit"]:
            nontrivial.append(["hit", tno])
    res["stats"] = {
        "queries": len(rec.qdata), "unsat": sum(1 for q in rec.qdata.values() if q.get("truth") == "unsat"),
        "oracle_unknown": sum(1 for q in rec.qdata.values() if q.get("truth") == "unknown")
        + sum(1 for e in rec.events if e["e"] == "core" and e.get("truth") == "unknown"),
        "hits": sum(1 for e in rec.events if e["e"] == "check" and e["hit"]), "cores": cores, "gc": rec.gc_runs,
        "nontrivial": [list(x) for x in sorted({tuple(x) for x in nontrivial})],
        "times": [round(t1 - t0, 1), round(t2 - t1, 1), round(time.time() - t2, 1)],
    }
    res["sample"] = {"case": case.index, "cli": list(case.cli), "inject": case.inject, "tests": [m.tree[:160] for m in metas],
                     "queries": len(rec.qdata), "unsat": res["stats"]["unsat"], "cores": cores, "hits": res["stats"]["hits"],
                     "exit_codes": [r.exitcode for r in out.results]}
    shutil.rmtree(work / "oracle", ignore_errors=True)
    return res


def _cases_from(path: str) -> list:
    return [UcCase(**{**c, "depth": tuple(c["depth"]), "cli": tuple(c["cli"])}) for c in json.loads(FsPath(path).read_text())]


def unsatcache_cases_json(cases) -> str:
    return json.dumps([{"seed": c.seed, "index": c.index, "ntests": c.ntests, "depth": list(c.depth), "hard": c.hard,
                        "cli": list(c.cli), "inject": c.inject} for c in cases])


def unsatcache_shard_main(argv: list[str]) -> int:
    """`python -m harness.unsatcache_replay shard in.json out.json workdir`: one process runs its share of the
    contracts one after the other (cache off / cache on alternating, so ids recycle across tests and contracts)."""
    from concurrent.futures import ThreadPoolExecutor

    unsatcache_tune_allocator()
    work = FsPath(argv[2])
    work.mkdir(parents=True, exist_ok=True)
    pool = ThreadPoolExecutor(3)
    out = []
    for case in _cases_from(argv[0]):
        out.append(unsatcache_case(case, work, pool, reserialize=(case.index % 7 == 3)))
    FsPath(argv[1]).write_text(json.dumps(out))
    return 0


def unsatcache_baseline_main(argv: list[str]) -> int:
    """`python -m harness.unsatcache_replay baseline in.json out.json`: cache-off summaries in a fresh process."""
    unsatcache_tune_allocator()
    cases = _cases_from(argv[0])
    dump = FsPath(argv[2])
    res = []
    for case in cases:
        rec, out, _ = unsatcache_run(case, cache=False, dump=dump, force_gc=False)
        res.append(unsatcache_summary(rec, out))
    FsPath(argv[1]).write_text(json.dumps(res))
    return 0


# =============================================================================================
# parse_unsat_core on every output shape


def unsatcache_parse_shapes(work: FsPath) -> list[dict]:
    """[{name, output, expected}] - `expected` is the list of names the solver put in its core (None when the
    output has no core); real outputs of yices-smt2 and z3 on named queries plus the shapes of the regex."""
    work.mkdir(parents=True, exist_ok=True)
    cases = []

    def named_query(ids, unsat: bool, width: int = 8) -> str:
        n = len(ids)
        ls = ["(set-option :produce-unsat-cores true)", "(set-logic QF_AUFBV)"]
        for k, i in enumerate(ids):
            ls += [f"(declare-fun x{k} () (_ BitVec {width}))", f"(declare-fun |{i}| () Bool)"]
        for k, i in enumerate(ids):
            nxt = (k + 1) % n
            if k == n - 1 and not unsat:
                ls.append(f"(assert (=> |{i}| (bvule x{k} x{k})))")
            else:
                ls.append(f"(assert (=> |{i}| (bvult x{k} x{nxt})))")
        ls += [f"(assert (! |{i}| :named <{i}>))" for i in ids]
        ls += ["(check-sat)", "(get-model)", "(get-unsat-core)"]
        return "\n".join(ls) + "\n"

    shapes = {
        "one": [7], "two": [11, 12], "big-ids": [41702, 37030, 36248, 47880], "long": list(range(100000, 100060)),
        "huge-id": [2**31 - 1, 2**40 + 3],
    }
    for sname, (solver, cmd) in {"yices": ("yices", YICES), "z3": ("z3", Z3BIN)}.items():
        for shape, ids in shapes.items():
            for unsat in (True, False):
                first, out = unsatcache_run_solver(named_query(ids, unsat), work / f"shape-{sname}-{shape}-{int(unsat)}.smt2", cmd, 60)
                if first != ("unsat" if unsat else "sat"):
                    raise MachineryError(f"{sname} answered {first!r} on the {shape} query (unsat={unsat})")
                # the names the solver printed after the (error ...) line, parsed independently by token scan
                exp = None
                if unsat:
                    tail = out.split("\n", 1)[1]
                    tail = re.sub(r'\(error\s+"[^"]*"\)', "", tail)
                    exp = re.findall(r"<(\d+)>", tail)
                    if not exp or not set(exp) <= {str(i) for i in ids}:
                        raise MachineryError(f"cannot read the core of {sname}: {out[:300]}")
                cases.append({"name": f"{sname}-{shape}-{'unsat' if unsat else 'sat'}", "output": out, "expected": exp,
                              "unsat": unsat})
    doc = [
        ("doc-example", 'unsat\n(error "the context is unsatisfiable")\n(<41702> <37030> <36248> <47880>)\n', ["41702", "37030", "36248", "47880"]),
        ("no-error-line", "unsat\n(<1> <2>)\n", ["1", "2"]),
        ("one-line", "unsat (<5>)", ["5"]),
        ("spaces", "unsat\n(  <1>   <2>\n <3> )\n", ["1", "2", "3"]),
        ("crlf", "unsat\r\n(<1> <2>)\r\n", ["1", "2"]),
        ("empty-core", "unsat\n()\n", []),
        ("unsat-only", "unsat\n", None),
        ("sat", "sat\n(model)\n", None),
        ("unknown", "unknown\n", None),
        ("garbage", "unsat\n(error \"boom\")\nsegfault\n", None),
        ("empty", "", None),
    ]
    for name, out, exp in doc:
        cases.append({"name": name, "output": out, "expected": exp, "unsat": out.startswith("unsat")})
    return cases


def unsatcache_check_shapes(cases: list[dict], parse=None) -> list[dict]:
    """Returns the cases on which `parse_unsat_core` does not return exactly the named ids (as a set and count)."""
    import logging

    parse = parse or hsolve.parse_unsat_core
    bad = []
    lg = logging.getLogger("halmos")
    old = lg.level
    lg.setLevel(logging.CRITICAL)
    try:
        for c in cases:
            try:
                got = parse(c["output"])
            except Exception as e:  # noqa: BLE001
                got = f"raised {type(e).__name__}: {e}"
            exp = c["expected"]
            ok = (got is None and exp is None) or (isinstance(got, list) and exp is not None and got == exp)
            if not ok:
                bad.append({**c, "got": got})
    finally:
        lg.setLevel(old)
    return bad


if __name__ == "__main__":
    import sys

    if len(sys.argv) >= 5 and sys.argv[1] == "baseline":
        sys.exit(unsatcache_baseline_main(sys.argv[2:]))
    if len(sys.argv) >= 5 and sys.argv[1] == "shard":
        sys.exit(unsatcache_shard_main(sys.argv[2:]))
    print(__doc__)
