"""Replay of ByteSeq/ChunkVec histories (spec/ByteSeq.tla, spec/ChunkVec.tla) into halmos' real ByteVec.

A history is the JSON value printed by TLC: a list of steps `{"c": command, "post": bytes, "alias": bool}`
where `post` is the value of the written vector `c.v` in the flat model after the command (byte values:
0..255 concrete, >= 256 the token 256 + 64*s + j = byte j of symbol s, symbol s being s % 64 bytes wide).

The commands are applied through the public write API of a *driver* (plain ByteVec objects, or
halmos.sevm.State objects driven through set_mslice / mslice / __deepcopy__, or a deliberately broken
ByteVec used as negative control).  After a step every live vector is read back through the public read
API only (len, get_byte, slice, [a:b], get_word, unwrap) and compared byte-wise with the flat state;
values that are z3 terms are evaluated with harness.zeval at NVAL random valuations of the symbols.
"""

from __future__ import annotations

import copy
import inspect
import json
import random
import resource
import signal
import sys
import textwrap
from types import SimpleNamespace

import z3

from .common import MachineryError, repo_python_path
from .zeval import Evaluator

repo_python_path()

from halmos import bytevec as _bytevec_mod  # noqa: E402
from halmos.bitvec import HalmosBitVec as BV  # noqa: E402
from halmos.bytevec import ByteVec  # noqa: E402
from halmos.sevm import State, copy_returndata_to_memory  # noqa: E402

WORD = 32
NVAL = 3
ALIAS_KEY = "bytevec-aligned-nested-alias"
STEP_TIMEOUT_S = 10.0  # CPU seconds for one command + the reads after it (normally milliseconds)
WORKER_MEM_BYTES = 6 << 30


class ReplayTimeout(Exception):
    pass


def _on_alarm(_sig, _frm):
    raise ReplayTimeout(f"no result after {STEP_TIMEOUT_S} CPU seconds")


class deadline:
    """Watchdog on the CPU time of this process (ITIMER_VIRTUAL, so that a starved machine cannot cause
    a false alarm; main thread only): vectors that have come to contain each other make the real
    append() loop for ever, and the checker must survive that."""

    def __init__(self, factor: float = 1.0):
        self.t = STEP_TIMEOUT_S * factor

    def __enter__(self):
        self.old = signal.signal(signal.SIGVTALRM, _on_alarm)
        signal.setitimer(signal.ITIMER_VIRTUAL, self.t)

    def __exit__(self, *a):
        signal.setitimer(signal.ITIMER_VIRTUAL, 0)
        signal.signal(signal.SIGVTALRM, self.old)
        return False


# ---------------------------------------------------------------------------------------------
# byte values and symbols


def sym_width(s: int) -> int:
    return s % 64


def is_tok(b: int) -> bool:
    return b >= 256


def tok_sym(b: int) -> int:
    return (b - 256) // 64


def tok_idx(b: int) -> int:
    return (b - 256) % 64


_SYMS: dict[int, z3.BitVecRef] = {}


def sym_term(s: int) -> z3.BitVecRef:
    t = _SYMS.get(s)
    if t is None:
        w = sym_width(s)
        if w == 0:
            raise MachineryError(f"symbol {s} has width 0")
        t = z3.BitVec(f"bs_{s}", 8 * w)
        _SYMS[s] = t
    return t


class Valuations:
    """NVAL random valuations of every symbol the specification can name (widths 1..63, 4 variants)."""

    def __init__(self, seed: int):
        rnd = random.Random(7919 * seed + 13)
        self.envs = []
        for _ in range(NVAL):
            env = {}
            for k in range(4):
                for w in range(1, 64):
                    s = w + 64 * k
                    env[f"bs_{s}"] = rnd.getrandbits(8 * w)
            self.envs.append(env)
        self.fresh()

    def fresh(self) -> None:
        self.evs = [Evaluator(env) for env in self.envs]

    def byte(self, k: int, b: int) -> int:
        if not is_tok(b):
            return b
        s, j = tok_sym(b), tok_idx(b)
        w = sym_width(s)
        return (self.envs[k][f"bs_{s}"] >> (8 * (w - 1 - j))) & 0xFF

    def expected(self, k: int, bs) -> int:
        r = 0
        for b in bs:
            r = (r << 8) | self.byte(k, b)
        return r


def bytes_to_term(bs) -> z3.BitVecRef:
    """ONE bit-vector term whose bytes are the given byte values (symbolic runs become Extracts of
    the symbol, concrete runs numerals)."""
    pieces = []
    i = 0
    n = len(bs)
    while i < n:
        b = bs[i]
        if is_tok(b):
            s, j0 = tok_sym(b), tok_idx(b)
            j = j0
            while i + 1 < n and is_tok(bs[i + 1]) and tok_sym(bs[i + 1]) == s and tok_idx(bs[i + 1]) == j + 1:
                i += 1
                j += 1
            w = sym_width(s)
            t = sym_term(s)
            if j0 == 0 and j == w - 1:
                pieces.append(t)
            else:
                pieces.append(z3.Extract(8 * (w - j0) - 1, 8 * (w - 1 - j), t))
        else:
            v = b
            cnt = 1
            while i + 1 < n and not is_tok(bs[i + 1]):
                i += 1
                v = (v << 8) | bs[i]
                cnt += 1
            pieces.append(z3.BitVecVal(v, 8 * cnt))
        i += 1
    if not pieces:
        raise MachineryError("empty term")
    return pieces[0] if len(pieces) == 1 else z3.Concat(*pieces)


# ---------------------------------------------------------------------------------------------
# drivers: how a command of the specification is issued to the implementation


class Driver:
    """Plain ByteVec objects; `cls` may be a subclass (negative controls)."""

    name = "ByteVec"
    cls = ByteVec
    deadline_factor = 1.0  # share of STEP_TIMEOUT_S granted per step (broken variants get less)

    def __init__(self, nv: int, rnd: random.Random):
        self.rnd = rnd
        self.vecs = [self.new() for _ in range(nv)]

    def new(self):
        return self.cls()

    def mem(self, i: int):
        """the object whose read API is observed"""
        return self.vecs[i]

    # -- arguments
    def value(self, d):
        k = d["k"]
        if k == "conc":
            return bytes(d["bytes"])
        if k == "sym":
            return sym_term(d["s"])
        if k == "mixed":
            return bytes_to_term(d["bytes"])
        if k == "slice":
            return self.read_slice(d["w"] - 1, d["a"], d["a"] + d["n"])
        if k == "vec":
            return self.mem(d["w"] - 1)
        raise MachineryError(f"unknown data kind {k}")

    def read_slice(self, i, a, b):
        m = self.mem(i)
        return m.slice(a, b) if self.rnd.random() < 0.5 else m[a:b]

    def byte_value(self, d):
        if d["k"] == "conc":
            return d["bytes"][0]
        return sym_term(d["s"])

    def word_value(self, d):
        if d["k"] == "conc":
            bs = bytes(d["bytes"])
            return int.from_bytes(bs, "big") if self.rnd.random() < 0.5 else bs
        return self.value(d)

    # -- commands
    def apply(self, c) -> None:
        op = c["op"]
        i = c["v"] - 1
        if op == "SetByte":
            self.mem(i).set_byte(c["off"], self.byte_value(c["data"]))
        elif op == "SetSlice":
            val = self.value(c["data"])
            self.mem(i).set_slice(c["off"], c["off"] + len_of(val), val)
        elif op == "SetWord":
            self.mem(i).set_word(c["off"], self.word_value(c["data"]))
        elif op == "Append":
            self.mem(i).append(self.value(c["data"]))
        elif op == "Slice":
            self.vecs[i] = self.own(self.mem(c["src"] - 1).slice(c["a"], c["b"]))
        elif op == "Copy":
            self.vecs[i] = self.own(self.mem(c["src"] - 1).copy())
        else:
            raise MachineryError(f"unknown op {op}")

    def own(self, res):
        """slice()/copy() of the real class construct plain ByteVec objects; a variant class must stay
        in force for the vector that the program goes on using (same chunk container, same length)"""
        if self.cls is ByteVec or type(res) is self.cls or not isinstance(res, ByteVec):
            return res
        return self.cls(_chunks=res.chunks, _length=res.length)


def len_of(val) -> int:
    if isinstance(val, bytes):
        return len(val)
    if z3.is_bv(val):
        return val.size() // 8
    return len(val)


class StateDriver(Driver):
    """halmos.sevm.State: writes through set_mslice (as CALLDATACOPY/CODECOPY/RETURNDATACOPY/MCOPY do) and
    through sevm.copy_returndata_to_memory (whole-vector arguments and prefixes of another vector), memory.set_word with a 256-bit BV (MSTORE), memory.set_byte with an
    8-bit BV (MSTORE8); reads through mslice; copies through __deepcopy__ (path fork / call return)."""

    name = "State"

    def new(self):
        return State()

    def mem(self, i):
        return self.vecs[i].memory

    def read_slice(self, i, a, b):
        return self.vecs[i].mslice(a, b - a)

    def as_bytevec(self, d):
        v = self.value(d)
        return v if isinstance(v, ByteVec) else ByteVec(v)

    def apply(self, c) -> None:
        op = c["op"]
        i = c["v"] - 1
        st = self.vecs[i]
        if op == "SetByte":
            d = c["data"]
            st.memory.set_byte(c["off"], BV(self.byte_value(d), size=8))
        elif op == "SetSlice":
            d = c["data"]
            src = self.vecs[d["w"] - 1].memory if d["k"] in ("vec", "slice") else None
            if d["k"] == "vec":
                # the fast path of copy_returndata_to_memory: the returndata object itself is written
                copy_returndata_to_memory(src, c["off"], len(src), SimpleNamespace(st=st))
            elif (d["k"] == "slice" and d["a"] == 0 and 0 < d["n"] <= len(src) and self.rnd.random() < 0.5
                  and (d["n"] < len(src) or d["w"] != c["v"])):
                # ret_size <= len(returndata): a prefix of the returndata (or, on the fast path, the
                # returndata object itself - but never the memory passed to itself) is written
                copy_returndata_to_memory(src, c["off"], d["n"], SimpleNamespace(st=st))
            else:
                st.set_mslice(c["off"], self.as_bytevec(d))
        elif op == "SetWord":
            d = c["data"]
            v = int.from_bytes(bytes(d["bytes"]), "big") if d["k"] == "conc" else self.value(d)
            st.memory.set_word(c["off"], BV(v, size=256))
        elif op == "Append":
            st.set_mslice(len(st.memory), self.as_bytevec(c["data"]))
        elif op == "Slice":
            src = self.vecs[c["src"] - 1]
            n = c["b"] - c["a"]
            self.vecs[i] = State(memory=src.mslice(c["a"], n) if n > 0 else ByteVec())
        elif op == "Copy":
            self.vecs[i] = copy.deepcopy(self.vecs[c["src"] - 1])
        else:
            raise MachineryError(f"unknown op {op}")


# ---------------------------------------------------------------------------------------------
# deliberately wrong variants of ByteVec, built from the CURRENT source text of the real methods in this
# process (nothing under /repo is touched); every pattern must occur exactly once, else MachineryError


def _variant(name: str, method: str, edits: list[tuple[str, str]], extra_methods: dict | None = None):
    ns = dict(vars(_bytevec_mod))
    body = {}
    if method:
        src = textwrap.dedent(inspect.getsource(getattr(ByteVec, method)))
        src = src.replace("self.__", "self._ByteVec__")
        for old, new in edits:
            if src.count(old) != 1:
                raise MachineryError(
                    f"broken-ByteVec variant {name!r} cannot be built: the source pattern {old!r} occurs "
                    f"{src.count(old)} times (expected exactly once) in the current ByteVec.{method} of "
                    f"{inspect.getsourcefile(ByteVec)}; update variant_classes() in harness/bytevec_replay.py"
                )
            src = src.replace(old, new)
        exec(compile(src, f"<{name}.{method}>", "exec"), ns)  # noqa: S102
        body[method] = ns[method]
    if extra_methods:
        body.update(extra_methods)
    cls = type(name, (ByteVec,), body)
    return cls


def variant_classes() -> dict:
    """name -> (class, must_be_rejected)"""

    def copy_returns_self(self):
        return self

    v = {}
    v["post-trunc-off-by-one"] = (
        _variant("PostTrunc", "set_slice",
                 [("last_chunk.chunk[stop - last_chunk.start :]", "last_chunk.chunk[stop - last_chunk.start + 1 :]")]),
        True,
    )
    v["pre-trunc-off-by-one"] = (
        _variant("PreTrunc", "set_slice",
                 [("first_chunk.chunk[: start - first_chunk.start]", "first_chunk.chunk[: start - first_chunk.start + 1]")]),
        True,
    )
    v["removal-range"] = (
        _variant("Removal", "set_slice", [("remove_from = first_chunk.index + 1", "remove_from = first_chunk.index + 2")]),
        True,
    )
    v["no-backfill"] = (
        _variant("NoBackfill", "set_byte", [('self.append(b"\\x00" * (offset - self.length))', "pass")]),
        True,
    )
    v["length-not-updated"] = (
        _variant("NoLen", "set_slice", [("self.length = max(self.length, stop)", "pass")]),
        True,
    )
    v["copy-returns-self"] = (_variant("CopySelf", "", [], {"copy": copy_returns_self}), True)
    v["slice-oob-fill"] = (
        _variant("SliceFill", "slice", [("num_missing_bytes = expected_length - len(result)",
                                          "num_missing_bytes = max(0, expected_length - len(result) - 1)")]),
        True,
    )
    # the defect repaired by halmos commit 1a97aee (finding bytevec-aligned-nested-alias) brought back:
    # the aligned fast path of set_slice is taken for ByteVec values again and stores them by reference
    v["reintroduce-aligned-alias"] = (
        _variant("AlignedAlias", "set_slice", [("and not isinstance(value, ByteVec)", "")]),
        True,
    )
    return v


def driver_for(cls, label: str):
    return type(f"Driver_{cls.__name__}", (Driver,), {"cls": cls, "name": label, "deadline_factor": 0.2})


# ---------------------------------------------------------------------------------------------
# comparison through the public read API


class Mismatch(Exception):
    def __init__(self, reader: str, vec: int, detail: str):
        super().__init__(f"{reader} of vector {vec}: {detail}")
        self.reader = reader
        self.vec = vec
        self.detail = detail


def show(bs) -> str:
    return "[" + " ".join((f"{b:02x}" if not is_tok(b) else f"s{tok_sym(b)}.{tok_idx(b)}") for b in bs) + "]"


class Comparer:
    def __init__(self, vals: Valuations, rnd: random.Random):
        self.vals = vals
        self.rnd = rnd
        self.reads = 0

    def same(self, reader: str, vec: int, got, exp, what: str) -> None:
        """got: int | bytes | z3 term | ByteVec-unwrapped value; exp: list of byte values"""
        self.reads += 1
        n = len(exp)
        if isinstance(got, BV):
            got = got.unwrap()
        if isinstance(got, bytes):
            if len(got) != n:
                raise Mismatch(reader, vec, f"{what}: {len(got)} bytes returned, expected {n}: {show(exp)}")
            gi = int.from_bytes(got, "big")
            for k in range(NVAL):
                if gi != self.vals.expected(k, exp):
                    raise Mismatch(reader, vec, f"{what}: got {got.hex()} expected {show(exp)}")
                if not any(is_tok(b) for b in exp):
                    break
            return
        if isinstance(got, bool) or not isinstance(got, int) and not z3.is_bv(got):
            raise Mismatch(reader, vec, f"{what}: returned {type(got).__name__} {got!r}")
        if isinstance(got, int):
            if got < 0 or got >= 1 << (8 * max(n, 1)):
                raise Mismatch(reader, vec, f"{what}: got {got:#x}, does not fit {n} bytes; expected {show(exp)}")
            for k in range(NVAL):
                if got != self.vals.expected(k, exp):
                    raise Mismatch(reader, vec, f"{what}: got {got:#x} expected {show(exp)}")
                if not any(is_tok(b) for b in exp):
                    break
            return
        if got.size() != 8 * n:
            raise Mismatch(reader, vec, f"{what}: term of {got.size()} bits, expected {n} bytes {show(exp)}")
        for k in range(NVAL):
            g = self.vals.evs[k].eval(got)
            e = self.vals.expected(k, exp)
            if g != e:
                raise Mismatch(reader, vec, f"{what}: valuation {k}: got {g:#x} expected {e:#x} = {show(exp)} (term {str(got)[:120]})")

    def check_vec(self, vec: int, m, exp: list, full: bool) -> None:
        n = len(exp)
        if len(m) != n:
            raise Mismatch("len", vec, f"len() = {len(m)}, expected {n}")
        rd = lambda o: exp[o] if o < n else 0  # noqa: E731
        sl = lambda a, b: [rd(o) for o in range(a, b)]  # noqa: E731
        offs = range(0, n + 3) if full else sorted({0, n // 2, max(n - 1, 0), n, n + 2})
        for o in offs:
            self.same("get_byte", vec, m.get_byte(o), [rd(o)], f"get_byte({o})")
        if full and n:
            o = self.rnd.randrange(n + 2)
            self.same("getitem", vec, m[o], [rd(o)], f"[{o}]")
        u = m.unwrap()
        if n == 0:
            if u != b"":
                raise Mismatch("unwrap", vec, f"unwrap() of an empty vector = {u!r}")
        else:
            self.same("unwrap", vec, u, exp, "unwrap()")
        if not full:
            return
        pairs = {(0, n), (0, n + 2), (n, n + 3), (max(n - 1, 0), n + 1), (1, n), (n + 2, n)}
        for _ in range(4):
            a = self.rnd.randrange(n + 3)
            pairs.add((a, a + self.rnd.choice((1, 2, 3, 5, WORD))))
        for a, b in sorted(pairs):
            for how in ("slice", "getslice"):
                s = m.slice(a, b) if how == "slice" else m[a:b]
                e = sl(a, b)
                if not isinstance(s, ByteVec):
                    raise Mismatch(how, vec, f"({a},{b}) returned {type(s).__name__}")
                if len(s) != len(e):
                    raise Mismatch(how, vec, f"({a},{b}) has length {len(s)}, expected {len(e)}")
                if e:
                    self.same(how, vec, s.unwrap(), e, f"{how}({a},{b}).unwrap()")
                    j = self.rnd.randrange(len(e) + 1)
                    self.same(how, vec, s.get_byte(j), [e[j] if j < len(e) else 0], f"{how}({a},{b}).get_byte({j})")
        woffs = {0, n, max(n - WORD, 0), max(n - 1, 0), self.rnd.randrange(n + 2)}
        for o in sorted(woffs):
            self.same("get_word", vec, m.get_word(o), sl(o, o + WORD), f"get_word({o})")


# ---------------------------------------------------------------------------------------------
# replay of one history


def nv_of(hist) -> int:
    nv = 1
    for st in hist:
        c = st["c"]
        nv = max(nv, c["v"], c.get("src", 0), c.get("data", {}).get("w", 0))
    return nv


def cmd_str(c) -> str:
    op = c["op"]
    if op in ("Slice",):
        return f"v{c['v']} = v{c['src']}.slice({c['a']},{c['b']})"
    if op == "Copy":
        return f"v{c['v']} = v{c['src']}.copy()"
    d = c["data"]
    k = d["k"]
    if k in ("conc", "mixed"):
        ds = f"{k}{show(d['bytes'])}"
    elif k == "sym":
        ds = f"sym(s{d['s']},{sym_width(d['s'])}B)"
    elif k == "slice":
        ds = f"v{d['w']}.slice({d['a']},{d['a'] + d['n']})"
    else:
        ds = f"v{d['w']}"
    if op == "Append":
        return f"v{c['v']}.append({ds})"
    if op == "SetByte":
        return f"v{c['v']}.set_byte({c['off']}, {ds})"
    if op == "SetWord":
        return f"v{c['v']}.set_word({c['off']}, {ds})"
    return f"v{c['v']}.set_slice({c['off']}, +len, {ds})"


class Outcome:
    __slots__ = ("ok", "step", "reader", "detail", "alias_before", "exc", "steps_compared", "reads", "features",
                 "predicted")

    def __init__(self):
        self.ok = True
        self.step = -1
        self.reader = ""
        self.detail = ""
        self.alias_before = False
        self.exc = ""
        self.steps_compared = 0
        self.reads = 0
        self.features = ()
        self.predicted = None

    def key(self, hist) -> str:
        if self.ok:
            return ""
        if self.alias_before:
            return ALIAS_KEY
        c = hist[self.step]["c"]
        k = c.get("data", {}).get("k", "-")
        if self.exc:
            return f"bytevec-exception:{c['op']}:{k}:{self.exc}"
        return f"bytevec-mismatch:{c['op']}:{k}:{self.reader}"

    def as_dict(self):
        return {s: getattr(self, s) for s in self.__slots__}


def replay(hist, driver_cls, vals: Valuations, seed: int, compare_from: int = 0, nv: int | None = None,
           corrupt: tuple | None = None, predict: dict | None = None) -> Outcome:
    """Apply the history to fresh vectors of `driver_cls`; compare after every step >= compare_from.
    corrupt = (step, index): negative control on the specification side (one expected byte is changed).
    predict = {"model": [...], "mlen": [...]}: what the chunk model of ChunkVec.tla says unwrap()/len() return
    at the end of the history; Outcome.predicted tells whether the real code does exactly that."""
    rnd = random.Random(seed)
    nv = nv or nv_of(hist)
    drv = driver_cls(nv, rnd)
    cmp_ = Comparer(vals, rnd)
    exp = [[] for _ in range(nv)]
    out = Outcome()
    alias = False
    for i, st in enumerate(hist):
        c = st["c"]
        try:
            with deadline(driver_cls.deadline_factor):
                drv.apply(c)
        except MachineryError:
            raise
        except (Exception, RecursionError) as e:  # noqa: BLE001 - any exception on a legal operation is a disagreement
            out.ok = False
            out.step = i
            out.exc = type(e).__name__
            out.detail = f"{cmd_str(c)} raised {type(e).__name__}: {e}"
            out.alias_before = alias
            break
        post = list(st["post"])
        if corrupt and corrupt[0] == i and post:
            j = corrupt[1] % len(post)
            post[j] = (post[j] + 1) % 256 if not is_tok(post[j]) else 0
        exp[c["v"] - 1] = post
        alias = alias or bool(st.get("alias"))
        if i < compare_from:
            continue
        out.steps_compared += 1
        try:
            with deadline(driver_cls.deadline_factor):
                for v in range(nv):
                    cmp_.check_vec(v + 1, drv.mem(v), exp[v], full=(v == c["v"] - 1))
        except Mismatch as m:
            out.ok = False
            out.step = i
            out.reader = m.reader
            out.detail = f"after {cmd_str(c)}: {m}"
            out.alias_before = alias
            break
        except MachineryError:
            raise
        except Exception as e:  # noqa: BLE001 - an exception escaping a read is a disagreement too
            out.ok = False
            out.step = i
            out.exc = type(e).__name__
            out.reader = "read"
            out.detail = f"read API raised {type(e).__name__}: {e} after {cmd_str(c)}"
            out.alias_before = alias
            break
    out.reads = cmp_.reads
    out.features = features(hist)
    if predict is not None:
        out.predicted = False
        if not out.exc or out.reader == "read":
            try:
                with deadline(driver_cls.deadline_factor):
                    # the history may have stopped early at the first disagreement: finish it
                    for st in hist[(out.step + 1) if not out.ok else len(hist) :]:
                        drv.apply(st["c"])
                    good = True
                    for v, (bs, ln) in enumerate(zip(predict["model"], predict["mlen"])):
                        m = drv.mem(v)
                        good = good and len(m) == ln
                        if bs and good:
                            cmp_.same("unwrap", v + 1, m.unwrap(), bs, "prediction")
                    out.predicted = good
            except Exception:  # noqa: BLE001
                out.predicted = False
    return out


def features(hist) -> tuple:
    """what makes a history non-trivial for C07 (for the evidence counters)"""
    f = set()
    for st in hist:
        c = st["c"]
        d = c.get("data", {})
        if c["op"] in ("Copy", "Slice"):
            f.add("copy-or-slice")
        if d.get("k") == "slice" and d.get("w") == c["v"]:
            f.add("self-copy")
        if d.get("k") == "vec":
            f.add("vector-argument")
        if d.get("k") in ("sym", "mixed"):
            f.add("symbolic")
        if c["op"] == "SetWord":
            f.add("word")
    return tuple(sorted(f))


def describe(hist) -> list[str]:
    return [cmd_str(st["c"]) for st in hist]


# ---------------------------------------------------------------------------------------------
# batches (optionally over a fork pool: one python process tree, no per-history start-up)

_G: dict = {}


def _init(seed, limit_mem=False):
    _G["vals"] = Valuations(seed)
    _G["n"] = 0
    if limit_mem:
        # pool worker: vectors that contain each other recurse without end in unwrap()/get_byte(); with the
        # limit of 20000 frames that harness.zeval asks for, that overflows the C stack (the worker dies)
        # before python notices; the terms evaluated here are only a few levels deep
        sys.setrecursionlimit(2500)
        try:
            resource.setrlimit(resource.RLIMIT_AS, (WORKER_MEM_BYTES, WORKER_MEM_BYTES))
        except (ValueError, OSError):
            pass


def _work(job):
    drivers, hists, seed, last_only, predicts = job
    vals = _G["vals"]
    res = []
    for idx, h in hists:
        _G["n"] += 1
        if _G["n"] % 200 == 0:
            vals.fresh()  # drop the evaluators' caches (they keep every evaluated term alive)
        for dn in drivers:
            try:
                o = replay(h, DRIVERS[dn], vals, seed + idx, compare_from=(len(h) - 1 if last_only else 0),
                           predict=predicts[idx] if predicts else None)
            except MemoryError:
                o = Outcome()
                o.ok = False
                o.step = len(h) - 1
                o.exc = "MemoryError"
                o.detail = "the replay exhausted the memory limit of the worker"
                o.alias_before = any(st.get("alias") for st in h)
            res.append((idx, dn, o.as_dict(), o.key(h)))
    return res


DRIVERS: dict = {"ByteVec": Driver, "State": StateDriver}


def register_variants() -> dict:
    vc = variant_classes()
    for name, (cls, _must) in vc.items():
        DRIVERS[name] = driver_for(cls, name)
    return vc


def run_batch(hists: list, drivers: list[str], seed: int, last_only: bool = False, procs: int = 1, chunk: int = 100,
              predicts: list | None = None):
    """-> list of (index, driver name, outcome dict, key).  procs >= 2: fork pool with a memory limit per
    worker (use it for histories that may wedge the implementation)."""
    jobs = []
    items = list(enumerate(hists))
    for i in range(0, len(items), chunk):
        jobs.append((drivers, items[i : i + chunk], seed, last_only, predicts))
    if procs <= 1:
        _init(seed)
        out = []
        for j in jobs:
            out += _work(j)
        return out
    return _run_jobs(jobs, seed, procs)


def _run_jobs(jobs: list, seed: int, procs: int) -> list:
    """Fork pool that survives the death of a worker (OOM killer, a crash inside z3): the jobs that were
    lost are run again, finally one history per pool; a history that kills its worker twice is a failure
    of the machinery (reported with the history), never a silent hang."""
    import multiprocessing as mp
    from concurrent.futures import ProcessPoolExecutor, as_completed
    from concurrent.futures.process import BrokenProcessPool

    ctx = mp.get_context("fork")
    out = []
    pending = list(jobs)
    for attempt in range(3):
        if not pending:
            break
        if attempt == 2:  # isolate: one history per job
            pending = [(d, [it], sd, lo, pr) for (d, items, sd, lo, pr) in pending for it in items]
        failed = []
        with ProcessPoolExecutor(max_workers=max(1, min(procs, len(pending))), mp_context=ctx,
                                 initializer=_init, initargs=(seed, True)) as ex:
            futs = {ex.submit(_work, j): j for j in pending}
            try:
                for f in as_completed(futs):
                    try:
                        out += f.result()
                    except BrokenProcessPool:
                        failed.append(futs[f])
            except BrokenProcessPool:  # pragma: no cover
                pass
            failed += [j for f, j in futs.items() if not f.done() and j not in failed]
        if failed and attempt == 2:
            bad = failed[0][1][0][1]
            raise MachineryError(f"a replay worker died {len(failed)} time(s) even in isolation, e.g. on {describe(bad)}")
        pending = failed
    out.sort(key=lambda t: (t[0], t[1]))
    return out


def check_prefix_closed(hists: list) -> None:
    """With one record per transition and `last_only` comparison, every proper prefix of a record must
    itself be a record (so that every step of every history is compared exactly once)."""
    seen = set()
    ser = []
    for h in hists:
        s = tuple(json.dumps(st["c"], sort_keys=True) for st in h)
        ser.append(s)
        seen.add(s)
    for s in ser:
        if len(s) > 1 and s[:-1] not in seen:
            raise MachineryError(f"history set is not prefix closed: {s[:-1]}")
