"""Storage programs over Solidity-layout location expressions (E1 corpus for C08).

Location expressions
  ("slot", s)                 a state variable at slot s
  ("map", key, L, n)          mapping element: keccak(key[0:n] ++ slot(L)), n = 32 (value-type key) or < 32 (bytes key)
  ("arr", L, idx)             dynamic array element: keccak(slot(L)) + idx
  ("off", L, j)               struct member: slot(L) + j
key / idx are word expressions (calldata words or constants).  Each location can be *written* in
several syntactic forms: hashing at run time, a PUSH32 of the precomputed hash when everything is
concrete, and additions in either order.
"""

from __future__ import annotations

import random

from eth_hash.auto import keccak

from .asm import assemble
from .hrun import TARGET, Prog, Sym
from .progs import M256, compile_expr

SCRATCH = 0x200


def is_concrete(e) -> bool:
    return e[0] == "c"


def loc_concrete(L) -> bool:
    t = L[0]
    if t == "slot":
        return True
    if t == "map":
        return is_concrete(L[1]) and loc_concrete(L[2])
    if t == "arr":
        return loc_concrete(L[1]) and is_concrete(L[2])
    return loc_concrete(L[1])


def loc_value(L) -> int:
    """Slot number of a fully concrete location."""
    t = L[0]
    if t == "slot":
        return L[1]
    if t == "map":
        key = L[1][1].to_bytes(32, "big")[: L[3]]
        return int.from_bytes(keccak(key + loc_value(L[2]).to_bytes(32, "big")), "big")
    if t == "arr":
        return (int.from_bytes(keccak(loc_value(L[1]).to_bytes(32, "big")), "big") + L[2][1]) % M256
    return (loc_value(L[1]) + L[2]) % M256


def anchor(L) -> int | None:
    """The innermost hash value the constant form of L is an offset of (None: no hash involved)."""
    t = L[0]
    if t == "slot":
        return None
    if t == "map":
        return loc_value(L)
    if t == "arr":
        return int.from_bytes(keccak(loc_value(L[1]).to_bytes(32, "big")), "big")
    return anchor(L[1])


def const_in_reach(L) -> bool:
    a = anchor(L)
    return a is None or (a >> 16) == (loc_value(L) >> 16)


def compile_loc(L, rnd: random.Random, depth: int = 0, form: str = "runtime") -> list:
    """Code leaving the slot number of L on the stack."""
    t = L[0]
    base = SCRATCH + 0x80 * depth
    if form == "const" and loc_concrete(L):
        return [("PUSHN", 32, loc_value(L))]
    if t == "slot":
        return [("PUSH", L[1])]
    if t == "map":
        n = L[3]
        # key bytes at base[0:n], slot at base[n:n+32]
        code = compile_expr(L[1]) + [("PUSH", base), "MSTORE"]
        code += compile_loc(L[2], rnd, depth + 1, "runtime") + [("PUSH", base + n), "MSTORE"]
        return code + [("PUSH", n + 32), ("PUSH", base), "SHA3"]
    if t == "arr":
        inner = L[1]
        if form == "const-inner" and loc_concrete(inner):
            h = [("PUSHN", 32, int.from_bytes(keccak(loc_value(inner).to_bytes(32, "big")), "big"))]
        else:
            h = compile_loc(inner, rnd, depth + 1, "runtime") + [("PUSH", base), "MSTORE", ("PUSH", 32), ("PUSH", base), "SHA3"]
        idx = compile_expr(L[2])
        if rnd.random() < 0.5:
            return h + idx + ["ADD"]
        return idx + h + ["ADD"]
    if t == "off":
        inner = compile_loc(L[1], rnd, depth, form)
        k = rnd.random()
        if k < 0.4:
            return inner + [("PUSH", L[2]), "ADD"]
        if k < 0.8:
            return [("PUSH", L[2])] + inner + ["ADD"]
        # re-associated: (inner + 1) + (j - 1)
        if L[2] >= 1:
            return inner + [("PUSH", 1), "ADD", ("PUSH", L[2] - 1), "ADD"]
        return inner + [("PUSH", L[2]), "ADD"]
    raise ValueError(L)


def gen_loc(rnd: random.Random, depth: int, nin: int, sym_ok: bool = True):
    def word():
        k = rnd.random()
        if sym_ok and k < 0.6:
            return ("in", rnd.randrange(nin))
        return ("c", rnd.choice([0, 1, 2, 3, 5, 143, 2**160 - 1, 2**255]))

    if depth <= 0 or rnd.random() < 0.25:
        return ("slot", rnd.choice([0, 1, 2, 3, 5, 9]))
    k = rnd.random()
    if k < 0.45:
        return ("map", word(), gen_loc(rnd, depth - 1, nin, sym_ok), 32 if rnd.random() < 0.8 else rnd.choice([1, 5, 20, 31]))
    if k < 0.8:
        idx = word() if rnd.random() < 0.7 else ("c", rnd.choice([0, 1, 2, 100, 193, 65535, 65536, 2**20]))
        return ("arr", gen_loc(rnd, depth - 1, nin, sym_ok), idx)
    return ("off", gen_loc(rnd, depth - 1, nin, sym_ok), rnd.choice([0, 1, 2, 3]))


def fam_storage(rnd: random.Random, ninputs: int = 10, transient: bool = False):
    nin = 3
    nops = rnd.randint(2, 6)
    locs = [gen_loc(rnd, rnd.randint(0, 3), nin) for _ in range(rnd.randint(1, 3))]
    # a fully concrete location, so that the PUSH32 form is exercised
    if rnd.random() < 0.5:
        locs.append(gen_loc(rnd, rnd.randint(1, 2), nin, sym_ok=False))
    # the "concretised twin" of a location with symbolic keys: every (or every other) calldata word replaced by a
    # constant of the small input domain - for the inputs that hit the constants both denote ONE slot, written once
    # with symbolic and once with concrete keys (partly or fully precomputable hashes)
    def short_keys(L):
        return (L[0] == "map" and (L[3] != 32 or short_keys(L[2]))) or (L[0] == "arr" and short_keys(L[1])) or (L[0] == "off" and short_keys(L[1]))

    # (mappings with short keys included: a concrete key hashed at run time must match a symbolic one - fixed defect,
    # probe short-key-concrete-vs-symbolic in checks/c08.py)
    symlocs = [L for L in locs if not loc_concrete(L) and L[0] != "slot"]
    if symlocs and rnd.random() < 0.6:
        every = rnd.random() < 0.5
        cnt = [0]

        def twin(L):
            def w(e):
                if e[0] == "in":
                    cnt[0] += 1
                    if every or cnt[0] % 2:
                        return ("c", rnd.choice([0, 1, 2, 3]))
                return e

            t = L[0]
            if t == "slot":
                return L
            if t == "map":
                return ("map", w(L[1]), twin(L[2]), L[3])
            if t == "arr":
                return ("arr", twin(L[1]), w(L[2]))
            return ("off", twin(L[1]), L[2])

        # (a concrete array element is recognised within the 2^16 window of its hash only - recorded finding
        #  hash-offset-window - so a twin whose concrete parts leave that window is not generated)
        def reach_all(L):
            if L[0] == "slot":
                return True
            if loc_concrete(L) and not const_in_reach(L):
                return False
            return reach_all(L[2] if L[0] == "map" else L[1])

        tw = twin(rnd.choice(symlocs))
        if reach_all(tw):
            locs.append(tw)
    st, ld = ("TSTORE", "TLOAD") if transient else ("SSTORE", "SLOAD")
    body = []
    out = 0
    written = []
    # halmos recognises a precomputed hash constant through a reverse-lookup table of the hashes it has seen
    # (plus a table of common ones), within a 2^16 window.  Constants outside that reach are a recorded
    # finding (probes in checks/c08.py); the random corpus uses the constant form only where the
    # mechanism is supposed to work: after the same hash was computed at run time, without leaving the window.
    seen_runtime: set = set()

    def pick_form(L):
        if loc_concrete(L) and repr(L) in seen_runtime and const_in_reach(L) and rnd.random() < 0.6:
            return "const"
        if L[0] == "arr" and loc_concrete(L[1]) and not loc_concrete(L):
            # precomputed hash constant plus a symbolic offset
            if "H" + repr(L[1]) in seen_runtime and rnd.random() < 0.5:
                return "const-inner"
        if loc_concrete(L):
            seen_runtime.add(repr(L))
        if L[0] == "arr" and loc_concrete(L[1]):
            seen_runtime.add("H" + repr(L[1]))
        return "runtime"

    for i in range(nops):
        L = rnd.choice(locs)
        form = pick_form(L)
        if rnd.random() < 0.6 or not written:
            val = ("in", rnd.randrange(nin)) if rnd.random() < 0.6 else ("c", rnd.choice([0, 1, 7, M256 - 1]))
            if rnd.random() < 0.15:
                val = ("LT", ("in", 0), ("c", 5))  # a boolean-typed value
            body += compile_expr(val) + compile_loc(L, rnd, 0, form) + [st]
            written.append(L)
        else:
            body += compile_loc(L, rnd, 0, form) + [ld, ("PUSH", 32 * out), "MSTORE"]
            out += 1
    forked = rnd.random() < 0.5
    if forked:
        # a symbolic branch (bit 3 of the last calldata word) before the final reads: both sides go on with the hashes
        # seen so far - the side that jumps is a copy of the state - and what one side stores the other does not see
        lab = "sfork"
        L = rnd.choice(locs)
        body += [("PUSH", 32 * (nin - 1)), "CALLDATALOAD", ("PUSH", 8), "AND", ("PUSHL", lab), "JUMPI"]
        # (a hash first computed inside the branch is not known to the side that skips it: see seen_runtime above)
        keep = set(seen_runtime)
        body += [("PUSH", 0x5A)] + compile_loc(L, rnd, 0, pick_form(L)) + [st, ("LABEL", lab)]
        seen_runtime.clear()
        seen_runtime.update(keep)
    # epilogue: read every location again, each in a possibly different syntactic form
    for L in locs:
        form = pick_form(L)
        body += compile_loc(L, rnd, 0, form) + [ld, ("PUSH", 32 * out), "MSTORE"]
        out += 1
    code = assemble(body + [("PUSH", 32 * out), ("PUSH", 0), "RETURN"])
    names = [f"cd{i}" for i in range(nin)]
    def idx_inputs(L, acc):
        if L[0] == "arr":
            if L[2][0] == "in":
                acc.add(f"cd{L[2][1]}")
            idx_inputs(L[1], acc)
        elif L[0] == "map":
            idx_inputs(L[2], acc)
        elif L[0] == "off":
            idx_inputs(L[1], acc)
        return acc

    bounded = set()
    for L in locs:
        idx_inputs(L, bounded)
    prog = Prog(accounts={TARGET: code}, calldata=[Sym(nm, 256) for nm in names], name="tstorage" if transient else "storage",
                meta={"locs": repr(locs), "bounded_inputs": {nm: 2**64 for nm in bounded}})
    inputs = []
    small = [0, 1, 2, 3]
    for k in range(ninputs):
        if k < ninputs * 2 // 3:
            inputs.append({nm: rnd.choice(small) for nm in names})  # colliding keys / indices
        else:
            inputs.append({nm: rnd.choice([0, 1, 143, 2**160 - 1, 2**255, rnd.getrandbits(256)]) for nm in names})
    if forked:
        # the jumping side of the final branch, on the colliding domain
        for _ in range(3):
            inputs.append({nm: rnd.choice(small) + (8 if nm == names[-1] else 0) for nm in names})
    return prog, inputs
