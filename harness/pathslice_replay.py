"""Replay of PathSlice.tla histories into halmos' real Path (append / branch / activate / _get_related / slice)."""

from __future__ import annotations

import z3

from .hrun import hmain, mk_args


def _cond(vs: list[str], tag: int):
    """A condition mentioning exactly the variables vs; `tag` keeps conditions of one path distinct."""
    v = [z3.BitVec(f"ps_{n}", 256) for n in sorted(vs)]
    if len(v) == 1:
        return z3.ULT(v[0], z3.BitVecVal(1000 + tag, 256))
    return z3.ULE(v[0] + z3.BitVecVal(tag, 256), v[1])


def replay(rec: dict) -> list[str]:
    """Returns the list of disagreements for one history (a parent path and, possibly, a forked child)."""
    from halmos.sevm import Path

    args = mk_args()
    solver = hmain.mk_solver(args)
    paths = rec["paths"]
    parent_rec = paths[0]
    child_rec = paths[1] if len(paths) > 1 else None
    parent = Path(solver)
    child = None
    errs = []
    n = len(parent_rec["conds"])
    for i in range(n):
        if child_rec is not None and i == child_rec["base"]:
            # Path.branch: the child waits with its first own condition pending while the parent goes on
            child = parent.branch(_cond(child_rec["conds"][i], 100 + i))
        parent.append(_cond(parent_rec["conds"][i], i))
    if child_rec is not None:
        if child is None:  # forked after the parent's last condition
            child = parent.branch(_cond(child_rec["conds"][child_rec["base"]], 100 + child_rec["base"])) if child_rec["base"] < len(child_rec["conds"]) else None
        if child is not None:
            child.activate()
            for i in range(child_rec["base"] + 1, len(child_rec["conds"])):
                child.append(_cond(child_rec["conds"][i], 100 + i))
    for name, p, r in (("parent", parent, parent_rec), ("child", child, child_rec)):
        if p is None or r is None:
            continue
        if len(p.conditions) != len(r["conds"]):
            errs.append(f"{name}: {len(p.conditions)} conditions on the path, {len(r['conds'])} expected")
            continue
        for sl in r["slices"]:
            vs = [z3.BitVec(f"ps_{nm}", 256) for nm in sl["v"]]
            got = sorted(p._get_related(set(vs)))
            want = sorted(i - 1 for i in sl["s"])
            if got != want:
                errs.append(f"{name}: conditions {r['conds']}: slice for {sl['v']} = {got}, connected component = {want}")
        last = r["slices"][-1]
        p.slice(set(z3.BitVec(f"ps_{nm}", 256) for nm in last["v"]))
        if sorted(p.sliced) != sorted(i - 1 for i in last["s"]):
            errs.append(f"{name}: Path.slice({last['v']}) = {sorted(p.sliced)}, expected {sorted(i - 1 for i in last['s'])}")
    return errs


def backward_only_append():
    """Context manager: Path.append with the dependency update of the code before fix f0cf83b (only the new
    condition learns about earlier ones) - the negative control of the replay."""
    import contextlib

    from halmos.sevm import Path

    @contextlib.contextmanager
    def cm():
        orig = Path.append

        def append(self, cond, branching=False):
            n = len(self.conditions)
            orig(self, cond, branching)
            if len(self.conditions) == n + 1:
                idx = n
                var_set = self.get_var_set(list(self.conditions)[idx])
                # undo the group update: earlier conditions keep what they knew, the new one sees backwards only
                for i in range(idx):
                    self.related[i] = {j for j in self.related[i] if j < idx and j != i} if i in self.related else set()
                direct = set()
                for var in var_set:
                    direct.update(j for j in self.var_to_conds[var] if j != idx)
                rel = set(direct)
                for j in direct:
                    rel.update(self.related[j])
                self.related[idx] = rel

        Path.append = append
        try:
            yield
        finally:
            Path.append = orig

    return cm()
