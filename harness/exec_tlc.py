"""TLC side of engine E3 (property C17): model-check spec/Executor.tla, extract schedules.

Schedules come from
  * spec/ExecSched.tla (Executor + history variable), which prints every terminated behaviour as one
    JSON record {init, npre, hist: [{a: label, s: projection, en: enabled threads before the step}]}
      - BFS with the history in the state = EVERY behaviour with <= MaxPreempt preemptions
      - `-simulate` = random maximal behaviours;
  * the counterexample of an (expected) invariant violation, parsed from TLC's error trace.
"""

from __future__ import annotations

import re
from concurrent.futures import ThreadPoolExecutor
from pathlib import Path

from . import tlaval
from .common import NCPU, SPEC, MachineryError, TLCResult, run_tlc

_CONST_RE = re.compile(r"^\s*(Jobs|HasTimeout|IgnoresTerm|PopenMayFail|Modes|Modes2|NeverExits)\s*=\s*\{([^}]*)\}",
                       re.M)


def cfg_constants(cfg: str) -> dict:
    """Jobs / HasTimeout / IgnoresTerm / PopenMayFail / Modes of a configuration file, as lists."""
    text = (SPEC / cfg).read_text()
    out = {}
    for m in _CONST_RE.finditer(text):
        out[m.group(1)] = [x.strip().strip('"') for x in m.group(2).split(",") if x.strip()]
    for k in ("Jobs", "HasTimeout", "IgnoresTerm", "PopenMayFail", "Modes"):
        if k not in out:
            raise MachineryError(f"{cfg}: constant {k} not found")
    return out


# ---------------------------------------------------------------------------------------------
# error traces


_STATE_RE = re.compile(r"^State (\d+): <([^>]*)>\s*$", re.M)
_VAR_RE = re.compile(r"^/\\ (\w+) = ", re.M)


def parse_error_trace(stdout: str) -> list[dict]:
    """States of the counterexample TLC printed (list of {variable: python value})."""
    i = stdout.find("Error: The behavior up to this point is:")
    if i < 0:
        raise MachineryError("no error trace in TLC output")
    text = stdout[i:]
    heads = list(_STATE_RE.finditer(text))
    states = []
    for n, h in enumerate(heads):
        end = heads[n + 1].start() if n + 1 < len(heads) else len(text)
        body = text[h.end():end]
        # the last state is followed by TLC's statistics: cut at the first blank line
        cut = body.find("\n\n")
        if cut >= 0:
            body = body[:cut]
        vs = list(_VAR_RE.finditer(body))
        st = {}
        for k, v in enumerate(vs):
            vend = vs[k + 1].start() if k + 1 < len(vs) else len(body)
            try:
                st[v.group(1)] = tlaval.parse(body[v.end():vend].strip())
            except tlaval.ParseError as e:
                raise MachineryError(f"cannot parse {v.group(1)} of state {h.group(1)}: {e}") from e
        if not st:
            raise MachineryError(f"empty state {h.group(1)} in error trace")
        states.append(st)
    if not states:
        raise MachineryError("error trace without states")
    return states


def _plain(v):
    if isinstance(v, dict):
        return {str(k): _plain(x) for k, x in v.items()}
    if isinstance(v, (list, tuple)):
        return [_plain(x) for x in v]
    if isinstance(v, tlaval.ModelValue):
        return str(v)
    return v


def state_projection(st: dict) -> dict:
    """Same shape as Proj of ExecSched.tla."""
    p = {k: _plain(st[k]) for k in ("mode", "flag", "lock", "futures", "spc", "wpc", "proc", "exc", "delivered",
                                   "seen", "hpc", "snap", "hidx", "late", "postret", "early", "sclosed")}
    p["cw"] = {str(k[1]): v for k, v in st["cpc"].items() if k[0] == "w"}
    p["ch"] = {}
    for k, v in st["cpc"].items():
        if k[0] != "w":
            p["ch"].setdefault(str(k[0]), {})[str(k[1])] = v
    return p


def trace_to_schedule(states: list[dict]) -> tuple[str, list[dict]]:
    """(mode, steps) of a counterexample; steps as printed by ExecSched (without `en`)."""
    mode = _plain(states[0]["mode"])
    steps = [{"a": _plain(st["act"]), "s": state_projection(st)} for st in states[1:]]
    return mode, steps


def labels(steps) -> list[str]:
    def tid(j):
        return ",".join(j) if isinstance(j, (list, tuple)) else str(j)

    return [f"{s['a']['k']}[{tid(s['a']['j'])}].{s['a']['a']}" for s in steps]


# ---------------------------------------------------------------------------------------------
# running several small TLC jobs side by side


def run_many(jobs: list[dict], work: Path, parallel: int | None = None) -> list[TLCResult]:
    """jobs: dicts of run_tlc keyword arguments plus 'module' and 'cfg'. Order of results = order of jobs."""
    parallel = parallel or max(1, min(len(jobs), NCPU // 2))

    work.mkdir(parents=True, exist_ok=True)

    def one(ij):
        i, j = ij
        j = dict(j)
        sub = work / f"run{i}"  # run_tlc names its files by the millisecond: keep concurrent runs apart
        sub.mkdir(parents=True, exist_ok=True)
        return run_tlc(j.pop("module"), j.pop("cfg"), work=sub, **j)

    with ThreadPoolExecutor(max_workers=parallel) as pool:
        return list(pool.map(one, enumerate(jobs)))
